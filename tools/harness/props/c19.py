"""C19 — FastEnforcer decides exactly like Enforcer.

Three-way histories: the real FastEnforcer, the real Enforcer and the Lean model (driver family `fast`:
`model=` the indexed container + FastModel + FastEnforcer.enforce, `spec=` the plain list-of-rules semantics) are
driven through the same management history; after every call the call's result, the sorted rule set and the
decisions over the whole small request universe are compared.

Streams
  main        well-sized rules, admissible key orders; everything is compared (impl/impl, impl/model, impl/spec, model/spec)
  c06-domain  from the first call on which the repaired and the unrepaired generic batch/update code of policy.py
              differ (in-batch duplicates, partly applicable batches, update onto a present rule): only the
              metamorphic relation FastEnforcer vs Enforcer is judged from there on
  malformed   rules too short for the key positions / over-long rules / ill-sized filters: FastEnforcer vs model only
              (the error branches of the container), the Enforcer is not the reference there
  sections    FastEnforcer on a model with two role definitions (g, g2) against Enforcer, no Lean side
"""
import itertools
import logging
import multiprocessing
import os

import common
from common import enc_bool, enc_rule, enc_rules, parse_ms, run_driver

TRANSLATORS = []
LEVEL = "proof"
ASSUMPTIONS = [
    "admissible cache-key order: every key position is a field the matcher compares by equality with the request (ACL: any of 0,1,2; RBAC: 1,2); an inadmissible order (RBAC keyed on the subject) is shown to break the equality by a Lean witness and is not generated",
    "rules have the arity of the policy definition; shorter/longer rules and over-long filters only exercise the container's error branches against the model (malformed stream)",
    "effect expressions without order dependence (allow-override, allow-and-deny); FastPolicy keeps rules in sets, so priority models are outside the property",
    "no adapter auto-save, no watcher; the policy is loaded through a list adapter without duplicate lines",
    "the generic batch/update code of policy.py is modelled as repaired by the C06 fix commits; inputs on which the unrepaired code differs are judged FastEnforcer-vs-Enforcer only",
    "rule order inside FastPolicy (Python set/dict order) is never compared: rule lists are compared as sorted sets",
]
TRUSTED_EXTRA = ["role inheritance g(_, _) is modelled by the level-bounded BFS of Model/Graph.lean (C03's subject)"]

NPROC = 16

# ---------------------------------------------------------------------------------------------- models

SHAPES = {
    "acl": "basic_model.conf",
    "rbac": "rbac_model.conf",
    "rbacdeny": "rbac_with_deny_model.conf",
}
ORDERS = {
    "acl": [[2, 1], [1, 2], [0, 1], [0, 1, 2], [1], [0], [2, 1, 0]],
    "rbac": [[2, 1], [1, 2], [1], [2]],
    "rbacdeny": [[2, 1], [1, 2], [2]],
}
HAS_G = {"acl": False, "rbac": True, "rbacdeny": True}

SUB = {"acl": ["alice", "bob"], "rbac": ["alice", "admin"], "rbacdeny": ["alice", "admin"]}
OBJ = ["d1", "d2"]
ACT = ["read", "write"]
GRULES = [["alice", "admin"], ["bob", "admin"], ["admin", "root"]]
RSUB = {"acl": ["alice", "bob", ""], "rbac": ["alice", "bob", "admin", ""], "rbacdeny": ["alice", "bob", "admin", ""]}


def rule_universe(shape):
    base = [[s, o, a] for s in SUB[shape] for o in OBJ for a in ACT]
    if shape == "rbacdeny":
        return [r + [e] for r in base for e in ("allow", "deny")]
    return base


def request_universe(shape, full=True):
    """every request over the names in use incl. the empty string (27 / 36 requests); the exhaustive histories (whose rules
    never hold an empty field) use the product over the non-empty names plus the all-empty and the one-empty-field requests"""
    if full:
        return [[s, o, a] for s in RSUB[shape] for o in OBJ + [""] for a in ACT + [""]]
    subs = [s for s in RSUB[shape] if s]
    return [[s, o, a] for s in subs for o in OBJ for a in ACT] + [["", "", ""], ["", OBJ[0], ACT[0]], [subs[0], "", ACT[0]], [subs[0], OBJ[0], ""]]


def job_requests(job):
    return request_universe(job["shape"], full=job["stream"].startswith("rnd") or job["stream"] in ("corpus", "replay"))


def arity(shape):
    return 4 if shape == "rbacdeny" else 3


# ---------------------------------------------------------------------------------------------- real code

_CASBIN = None


def casbin_mod():
    global _CASBIN
    if _CASBIN is None:
        _CASBIN = common.use_repo()
        logging.disable(logging.CRITICAL)
    return _CASBIN


def make_adapter_cls():
    casbin = casbin_mod()
    from casbin.persist.adapter import load_policy_line

    class ListAdapter(casbin.persist.Adapter):
        def __init__(self):
            self.lines = []

        def load_policy(self, model):
            for line in self.lines:
                load_policy_line(line, model)

    return ListAdapter


_ADAPTER = None


def make_pair(shape, order, model_file=None):
    """(FastEnforcer, Enforcer), each with its own list adapter, auto-save off"""
    global _ADAPTER
    casbin = casbin_mod()
    if _ADAPTER is None:
        _ADAPTER = make_adapter_cls()
    path = os.path.join(common.REPO, "examples", model_file or SHAPES[shape])
    fa, pa = _ADAPTER(), _ADAPTER()
    fast = casbin.FastEnforcer(path, fa, cache_key_order=list(order))
    plain = casbin.Enforcer(path, pa)
    for e in (fast, plain):
        e.enable_auto_save(False)
    return fast, plain


ERRS = {
    "invalid request size": "!invalidRequestSize",
    "invalid policy size": "!invalidPolicySize",
    "matcher result should be bool, int or float": "!matcherResultType",
}


def fmt_exc(ex):
    if isinstance(ex, RuntimeError) and str(ex) in ERRS:
        return ERRS[str(ex)]
    if isinstance(ex, IndexError):
        return "!indexError"
    if isinstance(ex, KeyError):
        return "!keyError"
    if isinstance(ex, AttributeError):
        return "!attributeError"
    return f"!other:{type(ex).__name__}"


def canon_rules(rules):
    return common.enc_list(sorted({enc_rule([str(x) for x in r]) for r in rules}), ";")


def fmt_val(v):
    if isinstance(v, bool):
        return enc_bool(v)
    if v is None:
        return "-"
    try:
        return canon_rules([list(r) for r in v])
    except Exception as ex:  # noqa  iteration of a broken container
        return fmt_exc(ex)


def apply_op(e, op):
    """one public-API call; returns the canonical result string"""
    k = op[0]
    try:
        if k == "add":
            return fmt_val(e.add_policy(*op[1]))
        if k == "addmany":
            return fmt_val(e.add_policies([list(r) for r in op[1]]))
        if k == "rm":
            return fmt_val(e.remove_policy(*op[1]))
        if k == "rmmany":
            return fmt_val(e.remove_policies([list(r) for r in op[1]]))
        if k == "rmf":
            return fmt_val(e.remove_filtered_policy(op[1], *op[2]))
        if k == "rmfe":  # model-level API (used by DistributedEnforcer); the generic code rebinds the policy like remove_filtered_policy
            return fmt_val(e.model.remove_filtered_policy_returns_effects("p", "p", op[1], *op[2]))
        if k == "values":  # get_all_subjects / objects / actions
            return canon_rules([[v] for v in e.model.get_values_for_field_in_policy("p", "p", op[1])])
        if k == "upd":
            return fmt_val(e.update_policy(list(op[1]), list(op[2])))
        if k == "updmany":
            return fmt_val(e.update_policies([list(r) for r in op[1]], [list(r) for r in op[2]]))
        if k == "clear":
            e.clear_policy()
            # role links are C04's subject (F03: clear_policy keeps them): start from rebuilt links on both sides
            e.build_role_links()
            return "-"
        if k == "load":
            e.adapter.lines = ["p, " + ", ".join(r) for r in op[1]] + ["g, " + ", ".join(r) for r in op[2]]
            e.load_policy()
            return "-"
        if k == "has":
            return fmt_val(e.has_policy(*op[1]))
        if k == "get":
            return fmt_val(e.get_policy())
        if k == "getf":
            return fmt_val(e.get_filtered_policy(op[1], *op[2]))
        if k == "enf":
            return fmt_val(e.enforce(*op[1]))
        if k == "addg":
            return fmt_val(e.add_grouping_policy(*op[1]))
        if k == "rmg":
            return fmt_val(e.remove_grouping_policy(*op[1]))
    except Exception as ex:  # noqa
        return fmt_exc(ex)
    raise common.Infra(f"unknown op {op!r}")


def observe(e, reqs):
    """(sorted rule set, decisions over the request universe)"""
    try:
        rules = canon_rules([list(r) for r in e.get_policy()])
    except Exception as ex:  # noqa
        rules = fmt_exc(ex)
    decs = []
    for r in reqs:
        try:
            decs.append(fmt_val(e.enforce(*r)))
        except Exception as ex:  # noqa
            decs.append(fmt_exc(ex))
    return rules + "#" + ",".join(decs)


def lean_op(op):
    k = op[0]
    if k in ("add", "rm", "has", "enf", "addg", "rmg"):
        return k + "\t" + enc_rule(op[1])
    if k in ("addmany", "rmmany"):
        return k + "\t" + enc_rules(op[1])
    if k in ("rmf", "getf", "rmfe"):
        return k + "\t" + str(op[1]) + "\t" + enc_rule(op[2])
    if k == "values":
        return k + "\t" + str(op[1])
    if k == "upd":
        return k + "\t" + enc_rule(op[1]) + "\t" + enc_rule(op[2])
    if k == "updmany":
        return k + "\t" + enc_rules(op[1]) + "\t" + enc_rules(op[2])
    if k == "load":
        return k + "\t" + enc_rules(op[1]) + "\t" + enc_rules(op[2])
    return k


# ---------------------------------------------------------------------------------------------- stream classification


_C06 = None


def c06_repaired():
    """which of the generic batch/update methods of policy.py already behave as repaired (probed on a plain Enforcer)"""
    global _C06
    if _C06 is None:
        casbin = casbin_mod()
        path = os.path.join(common.REPO, "examples", SHAPES["acl"])
        r1, r2, r3 = ["a", "b", "c"], ["d", "e", "f"], ["g", "h", "i"]

        def fresh(rules):
            e = casbin.Enforcer(path)
            for r in rules:
                e.add_policy(*r)
            return e

        rep = {}
        try:
            e = fresh([])
            e.add_policies([r1, r1])
            rep["addmany"] = len(list(e.get_policy())) == 1
            e = fresh([r1])
            rep["rmmany"] = e.remove_policies([r1, r2]) is False and e.has_policy(*r1) and fresh([r1]).remove_policies([r1, r1]) is True
            e = fresh([r1, r2])
            rep["upd"] = e.update_policy(r1, r2) is False
            e = fresh([r1, r2])
            rep["updmany"] = e.update_policies([r1, r2], [r3, r3]) is False and e.has_policy(*r1)
        except Exception:  # noqa
            pass
        _C06 = rep
    return _C06


def c06_domain(op, cur):
    """does the repaired generic code of policy.py (C06 fixes; what the Lean model transcribes) differ from the unrepaired one
    on this call?  Once policy.py is repaired (probed) nothing is excluded any more."""
    k = op[0]
    if c06_repaired().get(k):
        return False
    cur_l = [list(r) for r in cur]
    if k == "addmany":
        rs = [list(r) for r in op[1]]
        return not any(r in cur_l for r in rs) and len({tuple(r) for r in rs}) < len(rs)
    if k == "rmmany":
        rs = [list(r) for r in op[1]]
        if not rs:
            return False
        allp = all(r in cur_l for r in rs)
        if allp:
            return len({tuple(r) for r in rs}) < len(rs)
        return rs[0] in cur_l
    if k == "upd":
        o, n = list(op[1]), list(op[2])
        return o in cur_l and n != o and n in cur_l
    if k == "updmany":
        os_, ns = [list(r) for r in op[1]], [list(r) for r in op[2]]
        if len(os_) != len(ns) or not all(o in cur_l for o in os_):
            return False
        newp = list(cur_l)
        for o, n in zip(os_, ns):
            newp[cur_l.index(o)] = n
        return any(newp.count(n) > 1 for n in ns)
    return False


def malformed(op, shape, order):
    """outside the admissible inputs: rule arity, filters reaching beyond the rule"""
    ar = arity(shape)
    k = op[0]

    def bad(r):
        return len(r) != ar

    if k == "add":  # has / remove of an ill-sized rule are ordinary queries: the Enforcer stays the reference
        return bad(op[1])
    if k == "addmany":
        return any(bad(r) for r in op[1])
    if k == "upd":
        return bad(op[1]) or bad(op[2])
    if k == "updmany":
        return any(bad(r) for r in op[1] + op[2])
    if k == "load":
        return any(bad(r) for r in op[1]) or any(len(g) != 2 for g in op[2])
    if k in ("rmf", "getf", "rmfe"):
        return op[1] + len(op[2]) > ar
    if k == "values":
        return op[1] >= ar
    if k in ("addg", "rmg"):
        return len(op[1]) != 2
    return False


# ---------------------------------------------------------------------------------------------- generators


def alphabet(shape, small=False):
    """the small operation alphabet of the exhaustive histories (`small`: the quick tier's subset)"""
    U = rule_universe(shape)
    if shape == "rbacdeny":
        r1, r2, r3, r4 = U[0], U[15], U[5], U[10]  # alice d1 read allow / admin d2 write deny / alice d2 read deny / admin d1 write allow
    else:
        r1, r2, r3, r4 = U[0], U[7], U[2], U[5]  # s1 d1 read / s2 d2 write / s1 d2 read / s2 d1 write
    s1 = SUB[shape][0]
    ops = [
        ["add", r1], ["add", r2], ["add", r3],
        ["rm", r1], ["rm", r2],
        ["addmany", [r1, r3]], ["addmany", [r2, r4]], ["addmany", [r3, r3]],
        ["rmmany", [r1, r2]], ["rmmany", [r2, r3]], ["rmmany", [r1, r1]],
        ["rmf", 0, [s1]], ["rmf", 1, ["d2"]], ["rmf", 0, ["", "d1", "read"]], ["rmf", 1, ["", "write"]], ["rmf", 0, []],
        ["rmfe", 0, [s1]], ["rmfe", 1, []], ["values", 0], ["values", 2],
        ["upd", r1, r3], ["upd", r1, r2], ["upd", r2, r2], ["upd", r3, r4],
        ["updmany", [r1, r2], [r3, r4]], ["updmany", [r1, r2], [r2, r1]], ["updmany", [r1], [r3, r4]],
        ["clear"],
        ["load", [r1, r2], [GRULES[0]] if HAS_G[shape] else []],
        ["load", [r3], []],
        ["has", r1], ["get"], ["getf", 0, [s1]], ["getf", 1, ["d2", ""]],
        ["enf", r1[:3] + ["x"]], ["enf", r1[:2]], ["enf", r1[:1]],
    ]
    if small:
        drop = [["add", r3], ["rm", r2], ["addmany", [r2, r4]], ["rmmany", [r2, r3]], ["upd", r3, r4], ["load", [r3], []],
                ["getf", 1, ["d2", ""]], ["enf", r1[:1]], ["rmfe", 1, []], ["values", 2]]
        ops = [o for o in ops if o not in drop]
    if HAS_G[shape]:
        ops += [["addg", GRULES[0]], ["addg", GRULES[1]], ["rmg", GRULES[0]]] + ([] if small else [["addg", GRULES[2]]])
    return ops


def initial_states(shape):
    U = rule_universe(shape)
    g = [GRULES[0]] if HAS_G[shape] else []
    if shape == "rbacdeny":
        return [[], [["load", [U[0], U[15], U[10]], g]]]
    return [[], [["load", [U[0], U[7]], g]]]


DEPTH_REPS = {"acl": [[2, 1], [1], [0, 1, 2]], "rbac": [[2, 1], [2]], "rbacdeny": [[1, 2]]}


def gen_exhaustive(maxlen, full=False):
    """every history of length <= maxlen over the alphabet: from the loaded initial policy for every key order, from the
    empty policy for one key order of each depth (all of them when `full`)"""
    for shape in SHAPES:
        A = alphabet(shape, small=not full)
        inits = initial_states(shape)
        for order in ORDERS[shape]:
            for init in inits:
                if not init and not full and order not in DEPTH_REPS[shape]:
                    continue
                for n in range(1, maxlen + 1):
                    for seq in itertools.product(A, repeat=n):
                        yield dict(shape=shape, order=order, ops=init + list(seq), stream="exh", skip_obs=len(init) if (n, seq[0]) != (1, A[0]) else 0)


def gen_exh3(rng, per_combo):
    """length-3 histories: a seeded sample of the full cube over the alphabet for every shape x order"""
    for shape in SHAPES:
        A = alphabet(shape)
        for order in ORDERS[shape]:
            for init in initial_states(shape):
                for _ in range(per_combo):
                    yield dict(shape=shape, order=order, ops=init + [rng.choice(A) for _ in range(3)], stream="exh3")


def rand_rule(rng, shape, U):
    return list(rng.choice(U))


def rand_op(rng, shape, U, allow_malformed):
    s = SUB[shape]
    r = rng.random
    k = rng.choices(
        ["add", "rm", "addmany", "rmmany", "rmf", "upd", "updmany", "clear", "load", "has", "get", "getf", "enf", "addg", "rmg", "rmfe", "values"],
        [16, 10, 8, 6, 10, 8, 5, 2, 3, 4, 2, 3, 4, 5 if HAS_G[shape] else 0, 3 if HAS_G[shape] else 0, 4, 3],
    )[0]
    if k in ("add", "rm", "has"):
        rule = rand_rule(rng, shape, U)
        if allow_malformed and r() < 0.25:
            rule = rule[: rng.choice([0, 1, 2])] if r() < 0.6 else rule + ["extra"]
        return [k, rule]
    if k in ("addmany", "rmmany"):
        n = rng.choice([0, 1, 2, 2, 3, 4])
        rules = [rand_rule(rng, shape, U) for _ in range(n)]
        if allow_malformed and r() < 0.2 and rules:
            rules[rng.randrange(len(rules))] = rules[0][:1]
        return [k, rules]
    if k == "values":
        return [k, rng.choice([0, 1, 2] + ([3, 4] if allow_malformed else []))]
    if k in ("rmf", "getf", "rmfe"):
        ar = arity(shape)
        i = rng.choice([0, 0, 1, 1, 2])
        n = rng.choice([0, 1, 1, 2, 3]) if not allow_malformed else rng.choice([0, 1, 2, 3, 4])
        n = min(n, ar - i) if not allow_malformed else n
        pools = [s + [""], OBJ + [""], ACT + [""], ["allow", "deny", ""], ["x"], ["x"], ["x"]]
        return [k, i, [rng.choice(pools[i + j]) for j in range(n)]]
    if k == "upd":
        return [k, rand_rule(rng, shape, U), rand_rule(rng, shape, U)]
    if k == "updmany":
        n = rng.choice([0, 1, 2, 2, 3])
        m = n if r() < 0.9 else n + 1
        return [k, [rand_rule(rng, shape, U) for _ in range(n)], [rand_rule(rng, shape, U) for _ in range(m)]]
    if k == "clear":
        return [k]
    if k == "load":
        n = rng.choice([0, 1, 2, 3, 5])
        ps = [list(x) for x in rng.sample(U, min(n, len(U)))]
        gs = [list(x) for x in rng.sample(GRULES, rng.choice([0, 1, 2]))] if HAS_G[shape] else []
        if allow_malformed and r() < 0.3 and ps:
            ps[0] = ps[0][:1]
        return [k, ps, gs]
    if k == "get":
        return [k]
    if k == "enf":
        req = [rng.choice(RSUB[shape]), rng.choice(OBJ + [""]), rng.choice(ACT + [""])]
        x = r()
        if x < 0.3:
            req = req[: rng.choice([0, 1, 2])]
        elif x < 0.5:
            req = req + ["x"]
        return [k, req]
    return [k, list(rng.choice(GRULES))]


def gen_random(rng, n, lo, hi, malformed_share=0.15):
    combos = [(sh, o) for sh in SHAPES for o in ORDERS[sh]]
    for _ in range(n):
        shape, order = rng.choice(combos)
        U = rule_universe(shape)
        if rng.random() < 0.5:
            # a denser universe with empty fields (the all-empty rule / request matter for the empty-bucket branch)
            U = U + [["", "", ""] + (["allow"] if shape == "rbacdeny" else [])] + [[U[0][0], "", U[0][2]] + U[0][3:]]
        mal = rng.random() < malformed_share
        length = rng.randint(lo, hi)
        ops = [rand_op(rng, shape, U, mal) for _ in range(length)]
        if rng.random() < 0.5:
            ops = initial_states(shape)[1] + ops
        yield dict(shape=shape, order=order, ops=ops, stream="rnd-malformed" if mal else "rnd")


# ---------------------------------------------------------------------------------------------- running


def lean_lines(job):
    reqs = job_requests(job)
    obs = "obs\t" + enc_rules(reqs)
    lines = ["#reset", "init\t" + job["shape"] + "\t" + common.enc_list([str(x) for x in job["order"]], ";")]
    for op in job["ops"]:
        lines.append(lean_op(op))
        lines.append(obs)
    return lines


def signature(job, where, fast_s, plain_s, fast=None):
    """stable id of the failing call site / input class: the F14 sub-defects are recognised by their symptom, anything
    else gets a generic `<call>:<how>:keys=<n>` signature"""
    nk = len(job["order"])
    op = where[6:] if where.startswith("after-") else where
    try:
        container = type(fast.model.model["p"]["p"].policy).__name__ if fast is not None else "?"
    except Exception:  # noqa
        container = "?"
    if container == "list":
        return "F14a:indexed-policy-replaced-by-list"
    if op in ("upd", "updmany") and fast_s == "!attributeError":
        return "F14b:update-unsupported"
    if op == "enf" and fast_s == "!indexError":
        return "F14g:ill-sized-request-IndexError"
    how = fast_s if fast_s.startswith("!") and "#" not in fast_s else "differs"
    if "#" in fast_s:
        fr, fd = fast_s.split("#", 1)
        pr, pd = plain_s.split("#", 1) if "#" in plain_s else (plain_s, "")
        if fr.startswith("!"):
            how = "rules" + fr
        elif fr != pr:
            how = "rules-differ"
        else:
            fds, pds = fd.split(","), pd.split(",")
            diff = [i for i, (x, y) in enumerate(zip(fds, pds)) if x != y]
            reqs = job_requests(job)
            if fr != "~" and diff and all(reqs[i] == ["", "", ""] and fds[i] == "T" and pds[i] == "F" for i in diff):
                return "F14e:empty-bucket-takes-empty-policy-branch"
            errs = sorted({d for d in fds if d.startswith("!")} - {d for d in pds if d.startswith("!")})
            how = "decision" + (errs[0] if errs else "-differs")
    if nk != 2 and (how.startswith("rules") or fast_s == "!attributeError"
                    or (how == "differs" and op in ("get", "getf", "values", "upd", "updmany", "rmf", "rmfe"))):
        return "F14c:iteration-assumes-two-keys"  # every call that iterates the unfiltered container
    if nk >= arity(job["shape"]) and op in ("add", "rm", "has", "addmany", "rmmany") and how == "differs":
        return "F14d:contains-rejects-rules-with-as-many-fields-as-keys"
    return f"{where}:{how}:keys={'2' if nk == 2 else ('1' if nk == 1 else '3+')}"


def run_job(job, answers):
    """returns a dict: violations, disagreements, model_vs_spec, counts, nontrivial, evals"""
    out = dict(viol=[], dis=[], mvs=[], counts={}, nontrivial=set(), evals=0, traces=0)

    def count(k, n=1):
        out["counts"][k] = out["counts"].get(k, 0) + n

    shape, order = job["shape"], job["order"]
    reqs = job_requests(job)
    try:
        fast, plain = make_pair(shape, order)
    except Exception as ex:  # noqa  Enforcer accepts these models: a failure can only come from the fast side
        out["viol"].append(dict(signature="construct:" + fmt_exc(ex), case=dict(shape=shape, order=order, ops=[], stream=job["stream"]),
                                expected="an enforcer", observed=f"{type(ex).__name__}: {ex}",
                                what=f"FastEnforcer(cache_key_order={order}) cannot be constructed on {SHAPES[shape]} ({type(ex).__name__}: {ex})"))
        return out
    lean_ok = answers is not None
    stream = job["stream"]
    judged_plain = True  # is the Enforcer the reference (false inside the malformed stream)
    ai = 2
    count("stream:" + stream)
    count("shape:" + shape)
    count("order:" + ",".join(map(str, order)))
    count("len:" + str(min(len(job["ops"]), 31)))
    skip_obs = job.get("skip_obs", 0)  # the observation after the shared initial load is made by one history per combination
    for step, op in enumerate(job["ops"]):
        try:
            cur = [list(r) for r in plain.get_policy()]
        except Exception:  # noqa
            cur = []
        if judged_plain and len(cur) != len({tuple(r) for r in cur}):
            # the plain Enforcer stores a rule twice (C06's defect domain, unrepaired policy.py): its set semantics are gone
            count("stopped:enforcer-holds-a-rule-twice(C06)")
            break
        mal = malformed(op, shape, order)
        if lean_ok and not judged_plain:
            try:
                cur_f = [list(r) for r in fast.get_policy()]
            except Exception:  # noqa
                cur_f = []
        else:
            cur_f = cur
        if lean_ok and (c06_domain(op, cur) or c06_domain(op, cur_f)):
            lean_ok = False
            count("left-main:c06-domain")
        rf = apply_op(fast, op)
        rp = apply_op(plain, op)
        if mal:
            if rf == rp and rf.startswith("!"):
                # both enforcers refused the ill-formed call with the same exception: nothing may have changed on either
                # side, the Enforcer stays the reference
                count("malformed:refused-by-both")
            else:
                judged_plain = False
                count("left-main:malformed")
        if step < skip_obs:
            of = op_ = "~#"
        else:
            of = observe(fast, reqs)
            op_ = observe(plain, reqs)
            out["evals"] += 2 * len(reqs)
        out["evals"] += 2
        count("op:" + op[0])
        count("result:" + (rf if rf in ("T", "F", "-") or rf.startswith("!") else "rules"))
        if "T" in of.split("#", 1)[1]:
            out["nontrivial"].add(hash((shape, tuple(order), of, op[0])))
        case = dict(shape=shape, order=order, ops=job["ops"][: step + 1], stream=stream)
        # ---- the property, directly: FastEnforcer vs Enforcer
        if judged_plain:
            if rf != rp:
                out["viol"].append(dict(signature=signature(job, op[0], rf, rp, fast), case=case, expected=rp, observed=rf,
                                        what=f"{op[0]} returned {rf} on FastEnforcer(cache_key_order={order}) and {rp} on Enforcer ({shape} model) after the same history"))
                break
            if of != op_:
                out["viol"].append(dict(signature=signature(job, "after-" + op[0], of, op_, fast), case=case, expected=op_, observed=of,
                                        what=f"after {op[0]}: rule set / decisions over the request universe differ between FastEnforcer(cache_key_order={order}) and Enforcer ({shape} model)"))
                break
            # enforce_ex on both: same decision, an explanation exactly when Enforcer gives one, and the explaining rule agrees
            # with the request on every cache-key field (the keys are fields the matcher compares by equality)
            bad_ex = None
            for r in reqs[:: max(1, len(reqs) // 6)]:
                try:
                    fd, fe = fast.enforce_ex(*r)
                    pd, pe = plain.enforce_ex(*r)
                except Exception:  # noqa
                    continue  # raising requests are compared through enforce above
                out["evals"] += 2
                if fd != pd or bool(fe) != bool(pe) or (fe and (list(fe) not in [list(x) for x in fast.get_policy()] or any(i < len(fe) and i < len(r) and fe[i] != r[i] for i in order))):
                    bad_ex = (r, (fd, list(fe)), (pd, list(pe)))
                    break
            if bad_ex:
                out["viol"].append(dict(signature=signature(job, "explain-after-" + op[0], repr(bad_ex[1]), repr(bad_ex[2]), fast), case=case, expected=repr(bad_ex[2]), observed=repr(bad_ex[1]), request=list(bad_ex[0]),
                                        what=f"after {op[0]}: enforce_ex{tuple(bad_ex[0])} gives {bad_ex[1]} on FastEnforcer(cache_key_order={order}) and {bad_ex[2]} on Enforcer ({shape} model): decision / explanation differ, or the explaining rule does not agree with the request on the key fields"))
                break
        # ---- the Lean side
        if lean_ok:
            m1, s1 = parse_ms(answers[ai])
            m2, s2 = parse_ms(answers[ai + 1])
            ai += 2
            out["traces"] += 1
            of_c, m2_c = of, m2
            if not judged_plain and not of.startswith("!"):
                stored = common.dec_rules(of.split("#", 1)[0])
                if any(len(r) != arity(shape) for r in stored):
                    # a wrong-arity rule is stored: whether enforce meets it before an early exit depends on Python's set
                    # order, which the model does not (and must not) reproduce -> compare the rule sets only
                    of_c, m2_c = of.split("#", 1)[0], m2.split("#", 1)[0]
                    count("malformed:decisions-not-compared")
                    if op[0] == "enf":
                        rf = m1  # the call's own decision has the same dependence
            if step < skip_obs:
                of_c = m2_c = op_ = s2 = m2 = ""
            if rf != m1 or of_c != m2_c:
                out["dis"].append(dict(what="FastEnforcer vs Model/Fast (stepFast)", case=case, impl=[rf, of], model=[m1, m2]))
                break
            if judged_plain:
                if rp != s1 or op_ != s2:
                    out["dis"].append(dict(what="Enforcer vs plain list semantics (stepPlain)", case=case, impl=[rp, op_], model=[s1, s2]))
                    break
                if m1 != s1 or m2 != s2:
                    out["mvs"].append(dict(case=case, model=[m1, m2], spec=[s1, s2]))
                    break
    return out


def shrink(v):
    """greedy delta-debugging on the operation list: drop calls while the same signature is still reported"""
    c = v.get("case", {})
    if len(c.get("ops", [])) <= 2:
        return v
    ops, best = list(c["ops"]), v
    budget = 200

    def fails(cand):
        o = run_job(dict(shape=c["shape"], order=c["order"], ops=cand, stream=c.get("stream", "rnd")), None)
        return next((x for x in o["viol"] if x["signature"] == v["signature"]), None)

    changed = True
    while changed and budget > 0:
        changed = False
        for i in range(len(ops)):
            budget -= 1
            cand = ops[:i] + ops[i + 1 :]
            r = fails(cand)
            if r is not None:
                # the violation is reported at the failing call: everything after it is already cut
                ops, best, changed = list(r["case"]["ops"]), r, True
                break
    if best is not v:
        best = dict(best, shrunk_from=len(c["ops"]))
    return best


def _worker(jobs):
    casbin_mod()
    lines = []
    spans = []
    for j in jobs:
        ls = lean_lines(j)
        spans.append((len(lines), len(ls)))
        lines += ls
    answers = run_driver("fast", lines)
    agg = dict(viol=[], dis=[], mvs=[], counts={}, nontrivial=set(), evals=0, traces=0, samples=[])
    for j, (a, n) in zip(jobs, spans):
        o = run_job(j, answers[a : a + n])
        agg["viol"] += o["viol"]
        agg["dis"] += o["dis"]
        agg["mvs"] += o["mvs"]
        agg["evals"] += o["evals"]
        agg["traces"] += o["traces"]
        agg["nontrivial"] |= o["nontrivial"]
        for k, v in o["counts"].items():
            agg["counts"][k] = agg["counts"].get(k, 0) + v
    agg["viol"] = _cap(agg["viol"])
    if jobs:
        j = jobs[len(jobs) // 2]
        fast, plain = make_pair(j["shape"], j["order"])
        rs = [(apply_op(fast, op), apply_op(plain, op)) for op in j["ops"]]
        agg["samples"] = [dict(model=j["shape"], cache_key_order=j["order"], history=j["ops"], results_fast_vs_plain=rs,
                               final=observe(fast, job_requests(j)))]
    agg["dis"] = agg["dis"][:10]
    agg["mvs"] = agg["mvs"][:3]
    return agg


def _cap(viols, per_sig=3):
    seen = {}
    out = []
    for v in sorted(viols, key=lambda v: len(v["case"]["ops"])):
        n = seen.get(v["signature"], 0)
        if n < per_sig:
            out.append(v)
        seen[v["signature"]] = n + 1
    return out


def run_jobs(jobs, res):
    if not jobs:
        return
    chunk = max(1, min(400, (len(jobs) + NPROC * 4 - 1) // (NPROC * 4)))
    chunks = [jobs[i : i + chunk] for i in range(0, len(jobs), chunk)]
    with multiprocessing.Pool(NPROC) as pool:
        for agg in pool.imap_unordered(_worker, chunks):
            for v in agg["viol"]:
                res.violation(v, cap=3)
            for d in agg["dis"]:
                res.disagree(d)
            res.model_vs_spec += agg["mvs"]
            res.evaluations += agg["evals"]
            res.traces_validated += agg["traces"]
            res.nontrivial |= agg["nontrivial"]
            for k, v in agg["counts"].items():
                res.count(k, v)
            for smp in agg.get("samples", []):
                res.sample(smp)
    # keep the shortest witnesses first, one per signature shrunk
    res.spec_violations.sort(key=lambda v: len(v["case"].get("ops", [])))
    seen = set()
    for i, v in enumerate(res.spec_violations):
        if v["signature"] not in seen and len(seen) < 12:
            seen.add(v["signature"])
            res.spec_violations[i] = shrink(v)


def run_sections(res):
    """FastModel must load every assertion of a section like Model does (g and g2)"""
    casbin_mod()
    out = []
    for order in ([2, 1], [2]):
        try:
            fast, plain = make_pair("rbac", order, model_file="rbac_with_resource_roles_model.conf")
        except Exception as ex:  # noqa
            out.append(dict(signature="construct:" + fmt_exc(ex), case=dict(kind="sections", order=order), expected="an enforcer", observed=f"{type(ex).__name__}: {ex}",
                            what=f"FastEnforcer(cache_key_order={order}) cannot be constructed on rbac_with_resource_roles_model.conf ({type(ex).__name__}: {ex})"))
            continue
        keys_f = {sec: sorted(fast.model.model[sec].keys()) for sec in sorted(fast.model.model.keys())}
        keys_p = {sec: sorted(plain.model.model[sec].keys()) for sec in sorted(plain.model.model.keys())}
        res.evaluations += 1
        res.count("stream:sections")
        if keys_f != keys_p:
            out.append(dict(signature="F14f:assertions-missing", case=dict(kind="sections", order=order), expected=str(keys_p), observed=str(keys_f),
                            what=f"FastEnforcer(cache_key_order={order}) on rbac_with_resource_roles_model.conf (g, g2) holds the assertions {keys_f}, Enforcer {keys_p}: FastModel.add_def drops the return value of Model.add_def, so only the first assertion of each section is loaded"))
            continue
        if order != [2]:
            continue  # the object is compared through g2, only the action is an admissible key
        reqs = [["alice", "data1", "read"], ["alice", "data_group", "read"], ["bob", "data_group", "read"], ["alice", "data1", "write"]]
        hist = [["add", ["admin", "data_group", "read"]], ["addg", ["alice", "admin"]]]
        for e in (fast, plain):
            for op in hist:
                apply_op(e, op)
            try:
                e.add_named_grouping_policy("g2", "data1", "data_group")
            except Exception:  # noqa
                pass
        of, op_ = observe(fast, reqs), observe(plain, reqs)
        res.evaluations += 2 * len(reqs)
        if of != op_:
            out.append(dict(signature="sections:decisions", case=dict(kind="sections", order=order), expected=op_, observed=of,
                            what="FastEnforcer on a model with two role definitions (g, g2) does not decide like Enforcer"))
    for v in out:
        res.violation(v)
    return out


def _filtered_case(args):
    """FastEnforcer and Enforcer, each on its own FilteredFileAdapter over the same policy file: full, filtered and FAILING
    filtered loads (wrong filter type / file away), clear_policy and edits; after every step result, rule set and decisions
    of the two are compared (implementation side only)"""
    import shutil
    import tempfile

    shape, order, script = args
    casbin = casbin_mod()
    from casbin.persist.adapters import FilteredFileAdapter
    from casbin.persist.adapters.filtered_file_adapter import Filter

    d = tempfile.mkdtemp(prefix="c19f_")
    try:
        U = rule_universe(shape)
        path = os.path.join(d, "policy.csv")
        with open(path, "w") as f:
            f.write("\n".join(", ".join(["p"] + r) for r in U[:6]) + "\n" + ("\n".join(", ".join(["g"] + r) for r in GRULES) + "\n" if HAS_G[shape] else ""))
        mpath = os.path.join(common.REPO, "examples", SHAPES[shape])
        fast = casbin.FastEnforcer(mpath, FilteredFileAdapter(path), cache_key_order=list(order))
        plain = casbin.Enforcer(mpath, FilteredFileAdapter(path))
        reqs = request_universe(shape, full=False)
        out = []
        for op in script:
            rets = []
            for e in (fast, plain):
                e.enable_auto_save(False)
                try:
                    if op[0] == "load":
                        r = e.load_policy()
                    elif op[0] == "loadf":
                        flt = Filter()
                        flt.P, flt.G = list(op[1]), list(op[2])
                        r = e.load_filtered_policy(flt)
                    elif op[0] == "loadf-bad":
                        r = e.load_filtered_policy(object())
                    elif op[0] == "loadf-gone":
                        os.replace(path, path + ".away")
                        try:
                            flt = Filter()
                            flt.P, flt.G = [U[0][0]], []
                            r = e.load_filtered_policy(flt)
                        finally:
                            os.replace(path + ".away", path)
                    elif op[0] == "clear":
                        r = e.clear_policy()
                    elif op[0] == "add":
                        r = e.add_policy(*op[1])
                    elif op[0] == "remove":
                        r = e.remove_policy(*op[1])
                    else:
                        raise common.Infra("unknown op " + repr(op))
                    rets.append(repr(r))
                except common.Infra:
                    raise
                except Exception as ex:  # noqa
                    rets.append("!" + type(ex).__name__)
            out.append((rets, [canon_rules(e.get_policy()) for e in (fast, plain)], [observe(e, reqs) for e in (fast, plain)]))
        return out
    finally:
        shutil.rmtree(d, ignore_errors=True)


def run_filtered_stream(ctx, res, deep):
    rng = ctx["rng"]
    jobs = []
    for shape, order in (("acl", [2, 1]), ("acl", [1]), ("rbac", [2, 1]), ("rbac", [2])):
        U = rule_universe(shape)
        fails = [("loadf-bad",), ("loadf-gone",)]
        goods = [("load",), ("loadf", [U[0][0]], []), ("loadf", ["", U[0][1]], []), ("clear",), ("add", U[-1]), ("remove", U[0])]
        for a in goods[:3]:
            for f in fails:
                for b in goods:
                    jobs.append((shape, order, [a, f, b]))
        for _ in range(20 if not deep else 200):
            jobs.append((shape, order, [rng.choice(goods + fails) for _ in range(rng.randint(3, 6))]))
    for job in jobs:
        shape, order, script = job
        out = _filtered_case(job)
        res.nontrivial.add(hash(("filtered-stream", repr(job))))
        for i, (rets, pols, decs) in enumerate(out):
            res.evaluations += 1
            res.count("stream:filtered:" + script[i][0])
            what = None
            if rets[0] != rets[1]:
                what = ("result", rets[0], rets[1])
            elif pols[0] != pols[1]:
                what = ("rules", pols[0], pols[1])
            elif decs[0] != decs[1]:
                what = ("decisions", decs[0], decs[1])
            if what:
                res.violation(dict(signature=f"filtered-stream:{script[i][0]}:{what[0]}", case=dict(kind="filtered-stream", shape=shape, order=order, script=[list(o) for o in script[: i + 1]]), expected=str(what[2])[:400], observed=str(what[1])[:400],
                                   what=f"{shape}, cache_key_order={order}, both enforcers on a FilteredFileAdapter: after {[list(o) for o in script[: i + 1]]} the {what[0]} differ: FastEnforcer {str(what[1])[:200]}, Enforcer {str(what[2])[:200]}"))
                break


MULTI_TEXT = """[request_definition]
r = sub, obj, act
r2 = sub, obj, act

[policy_definition]
p = sub, obj, act
p2 = sub, obj, act

[policy_effect]
e = some(where (p.eft == allow))
e2 = some(where (p2.eft == allow))

[matchers]
m = r.sub == p.sub && r.obj == p.obj && r.act == p.act
m2 = r2.sub == p.sub && r2.obj == p.obj && r2.act == p.act
m3 = r2.sub == p2.sub && r2.obj == p2.obj && r2.act == p2.act
"""
# enforce contexts: the default definitions spelled out; a second request definition and matcher over the SAME (indexed)
# policy definition p; a full second definition (p2 is a plain list in FastModel)
CONTEXTS = {"default": ("r", "p", "e", "m"), "r2m2-over-p": ("r2", "p", "e", "m2"), "second": ("r2", "p2", "e2", "m3")}


def _context_case(args):
    """the same rules in a FastEnforcer and an Enforcer; every request of the universe WITH an EnforceContext in front
    (and without, as the baseline): decisions of the two (implementation side: the property's statement itself)"""
    import shutil
    import tempfile

    shape, order, rules, grules, cname = args
    casbin = casbin_mod()
    d = None
    try:
        if shape == "multi":
            d = tempfile.mkdtemp(prefix="c19c_")
            path = os.path.join(d, "model.conf")
            with open(path, "w") as f:
                f.write(MULTI_TEXT)
            fast, plain = casbin.FastEnforcer(path, cache_key_order=list(order)), casbin.Enforcer(path)
            reqs = request_universe("acl")
        else:
            fast, plain = make_pair(shape, order)
            for e in (fast, plain):
                e.clear_policy()
            reqs = request_universe(shape)
        for e in (fast, plain):
            for r in rules:
                e.add_policy(*r)
                if shape == "multi":
                    e.add_named_policy("p2", r[0], r[2], r[1])  # p2 holds different rules than p
            for gr in grules:
                e.add_grouping_policy(*gr)
        out = []
        for req in reqs:
            row = []
            for e in (fast, plain):
                c = casbin.core_enforcer.EnforceContext(*CONTEXTS[cname])
                try:
                    row.append(fmt_val(e.enforce(c, *req)))
                except Exception as ex:  # noqa
                    row.append(fmt_exc(ex))
            out.append((req, row[0], row[1]))
        return out
    finally:
        if d:
            shutil.rmtree(d, ignore_errors=True)


def run_context_stream(ctx, res, deep):
    """requests carrying an EnforceContext (Enforcer.enforce(ctx, sub, obj, act)): ACL, RBAC, RBAC-with-deny with the default
    context, and a model with several definitions, x every admissible key order x policies drawn from the rule universe"""
    rng = ctx["rng"]
    jobs = []
    for shape in list(SHAPES) + ["multi"]:
        base = "acl" if shape == "multi" else shape
        U = rule_universe(base)
        for order in ORDERS[base]:
            for cname in (["default"] if shape != "multi" else list(CONTEXTS)):
                pols = [U[:3], [U[0], U[-1]]] + [rng.sample(U, rng.randint(1, min(6, len(U)))) for _ in range(2 if not deep else 12)]
                for rules in pols:
                    jobs.append((shape, order, rules, GRULES if HAS_G.get(base) else [], cname))
    for job in jobs:
        shape, order, rules, grules, cname = job
        out = _context_case(job)
        res.nontrivial.add(hash(("context", repr(job))))
        for req, f, p in out:
            res.evaluations += 1
            res.count("stream:context:" + cname)
            if f != p:
                res.violation(dict(signature=f"enforce-context:{cname}:decision", case=dict(kind="context", shape=shape, order=order, rules=rules, grules=grules, context=cname, request=req), expected=p, observed=f,
                                   what=f"{shape}, cache_key_order={order}, rules {rules}: enforce(EnforceContext{CONTEXTS[cname]}, {', '.join(repr(x) for x in req)}) = {f} on FastEnforcer, {p} on Enforcer"))
                break


def run(ctx):
    res = common.Result()
    rng = ctx["rng"]
    if not ctx["deep"]:
        stages = [("quick", 2, 0, 2000, (3, 10))]
    elif ctx["proof_ok"] and ctx["tier"] == "thorough":
        stages = [("thorough", 2, 2000, 14000, (3, 30))]
    else:
        stages = [("quick", 2, 0, 2000, (3, 10)), ("thorough", 2, 2000, 14000, (3, 30))]
    for name, maxlen, exh3, nrand, (lo, hi) in stages:
        jobs = load_corpus() + list(gen_exhaustive(maxlen, full=(name == "thorough"))) + list(gen_exh3(rng, exh3)) + list(gen_random(rng, nrand, lo, hi))
        if name == "thorough":
            jobs += list(gen_random(rng, 2500, 30, 30))
        run_sections(res)
        run_filtered_stream(ctx, res, name == "thorough")
        run_context_stream(ctx, res, name == "thorough")
        run_jobs(jobs, res)
        res.rule = (
            f"[{name}] every history of length <= {maxlen} over a {len(alphabet('acl', name != 'thorough'))}/{len(alphabet('rbac', name != 'thorough'))}-operation alphabet (add/remove single+batch, "
            "remove_filtered (+returns_effects), update single+batch, clear, load, has/get/get_filtered/field values, ill-sized enforce, grouping add/remove) from the loaded initial policy (and from the empty one for a key order of each depth; all in the thorough tier) x "
            f"{sum(len(v) for v in ORDERS.values())} model/key-order combinations (ACL, RBAC, RBAC-with-deny x [2,1],[1,2],[0,1],[0,1,2],[1],[0],[2,1,0]) exhaustively"
            + (f", {exh3} sampled length-3 histories per combination" if exh3 else "")
            + f", {nrand} seeded random histories of length {lo}-{hi}"
            + (", 2500 of length 30" if name == "thorough" else "")
            + "; after every call: result, sorted rule set and the decisions over the request universe (all requests over the names in use, incl. the all-empty and one-empty-field requests: 12/16 requests in the exhaustive histories, the full 27/36 product incl. empty fields in the random ones) of "
            "FastEnforcer, Enforcer, Lean model and Lean plain-list spec compared; non-trivial = some request allowed; distinct by (model, order, observation, op)"
        )
        res.exhaustive = True
        if res.spec_violations:
            break
    return res


def load_corpus():
    d = os.path.join(common.VERIF, "corpus", "C19")
    jobs = []
    if os.path.isdir(d):
        import json

        for fn in sorted(os.listdir(d)):
            if fn.endswith(".json"):
                c = json.load(open(os.path.join(d, fn)))
                c = c.get("case", c)
                if "ops" in c:
                    jobs.append(dict(shape=c["shape"], order=c["order"], ops=c["ops"], stream="corpus"))
    return jobs


def replay(obj):
    """re-execute the history on the real FastEnforcer and Enforcer; True = they still differ"""
    c = obj["case"]
    if c.get("kind") == "sections":
        return bool(run_sections(common.Result()))
    if c.get("kind") == "context":
        out = _context_case((c["shape"], c["order"], c["rules"], c["grules"], c["context"]))
        return any(f != p for _, f, p in out)
    if c.get("kind") == "filtered-stream":
        rets, pols, decs = _filtered_case((c["shape"], c["order"], [tuple(o) for o in c["script"]]))[-1]
        return rets[0] != rets[1] or pols[0] != pols[1] or decs[0] != decs[1]
    o = run_job(dict(shape=c["shape"], order=c["order"], ops=c["ops"], stream="replay"), None)
    return bool(o["viol"])
