"""C09 — with auto-save the adapter's store mirrors the in-memory policy"""
import common
import enf_corr as ec

TRANSLATORS = []
LEVEL = "proof"
ASSUMPTIONS = [
    "the adapter is faithful: ordered rule sets per policy type that apply exactly the call they are given and never answer False (it implements Adapter, BatchAdapter and UpdateAdapter)",
    "clear_policy (not a management call; it never talks to the adapter), update_policies has its own mirror theorem (Props/C09u mirror_updateMany, any batch: one naming an old rule twice is refused), update_filtered_policies too (Props/UpdFiltered mirror)",
]
TRUSTED_EXTRA = []

CHANGE = ("add", "addmany", "remove", "removemany", "removefiltered", "update", "updatemany", "removeread", "updateread", "updatefiltered")


def judge_factory():
    state = {}

    def judge(res, cfg, hist, i, op, rec, model, case, queries):
        # autosave status along the history (the enforcer starts with auto-save on)
        on = True
        ever_off = False
        for o in hist[: i + 1]:
            if o[0] == "autosave":
                on = o[1]
                ever_off = ever_off or not o[1]
        before_on = True
        for o in hist[:i]:
            if o[0] == "autosave":
                before_on = o[1]
        failed = rec["ret"] in ("F", "L~")
        raised = rec["ret"].startswith("!")
        sig = f"C09:{cfg.shape}:{op[0]}:{op[1] if len(op) > 1 and op[1] in ('p', 'g', 'g2') else ''}"
        if op[0] == "updatefiltered":
            sig += ":" + ec.updatefiltered_kind(rec["pre"]["p"], op)
        what = None
        if op[0] in CHANGE:
            if failed and rec["acalls"]:
                what = f"the call reported {rec['ret']} but told the adapter {rec['acalls']}"
            elif not before_on and rec["acalls"]:
                what = f"auto-save is off but the adapter was told {rec['acalls']}"
            elif not ever_off and not rec["mirror"] and not any(o[0] == "clear" for o in hist[: i + 1]):
                what = f"after the call (result {rec['ret']}) the adapter holds {rec['store']} while memory holds {rec['pol']}"
        elif op[0] == "save":
            if not rec["mirror"]:
                what = f"after save_policy the adapter holds {rec['store']} while memory holds {rec['pol']}"
        elif op[0] == "load" and op[1] is None and i > 0 and not raised:
            prev = state.get((id(hist), i - 1))
            if prev is not None and prev["mirror"] and prev["answers"] != rec["answers"]:
                what = "load_policy directly after a mirrored state changed a decision / role query"
        state[(id(hist), i)] = rec
        if what:
            res.violation({"signature": sig, "what": f"{cfg.shape}: {[list(o) for o in hist[: i + 1]][-3:]}: {what}", "case": case, "expected": "store == memory / silent failure", "observed": what, "model_text": ec.TEXT[cfg.shape]})
            return False
        return True

    return judge


def gen(ctx, deep):
    rng = ctx["rng"]
    jobs = []
    for shape in ("rbac", "dom"):
        P, G, G2, R = ec.universe(shape)
        ops = [o for o in ec.op_alphabet(shape) if o[0] in CHANGE or o[0] in ("save", "load")]
        ops += [("update", P[0], P[1]), ("updatemany", [P[0], P[1]], [P[1], P[0]])]
        # batch updates naming the same old rule twice, and chains through a rule that is itself replaced
        fresh = [P[0][:-1] + ["other"], P[1][:-1] + ["other"]]
        ops += [("updatemany", [P[0], P[0]], fresh), ("updatemany", [P[0], P[0]], [fresh[0], fresh[0]]), ("updatemany", [P[0], P[1]], [P[1], fresh[0]])]
        inits = [{"p": [], "g": [], "g2": []}, {"p": P, "g": G, "g2": G2}]
        for init in inits:
            cfg = ec.Config(shape, adapter=True, watcher=None, initial=init)
            for a in ops:
                jobs.append((cfg, [a, ("load", None)]))
                jobs.append((cfg, [("autosave", False), a, ("save",), ("load", None)]))
            for a in ops:
                for b in ops:
                    jobs.append((cfg, [a, b]))
        # an adapter attached after construction (flags set while there was none), and ill-sized rules inside batches
        for is_async in (False, True):
            lcfg = ec.Config(shape, adapter=True, watcher=None, initial=inits[1], is_async=is_async, late=True)
            for a in ops:
                jobs.append((lcfg, [a, ("load", None)]))
        short = G[0][:-1]
        cfg0 = ec.Config(shape, adapter=True, watcher=None, initial=inits[0])
        for bad in ([G[0], short], [short, G[0]], [short]):
            jobs.append((cfg0, [("addmany", "g", bad), ("load", None)]))
            jobs.append((cfg0, [("add", "g", G[1]), ("addmany", "g", bad), ("load", None)]))
        jobs.append((cfg0, [("add", "g", short), ("load", None)]))
        # reloading the MODEL must leave the auto-save flag alone
        for a in ops[:12]:
            jobs.append((ec.Config(shape, adapter=True, watcher=None, initial=inits[1]), [("autosave", False), ("loadmodel",), ("load", None), a]))
            jobs.append((ec.Config(shape, adapter=True, watcher=None, initial=inits[1]), [("autosave", False), ("setmodel",), ("load", None), a]))
        # the async enforcer has its own copies of the internal paths
        acfg = ec.Config(shape, adapter=True, watcher=None, initial=inits[1], is_async=True)
        for a in ops:
            jobs.append((acfg, [a, ("load", None)]))
            jobs.append((acfg, [("autosave", False), a, ("save",), ("load", None)]))
        n = 800 if not deep else 5000
        for _ in range(n):
            cfg = ec.Config(shape, adapter=True, watcher=None, initial=rng.choice(inits), is_async=rng.random() < 0.3)
            h = [rng.choice(ops) for _ in range(rng.randint(3, 8))]
            if rng.random() < 0.3:
                k = rng.randrange(len(h))
                h.insert(k, ("autosave", False))
                h.append(("save",))
            h.append(("load", None))
            jobs.append((cfg, h))
    return jobs


U2 = [["alice", "read"], ["bob", "read"], ["alice", "write"], ["carol", "read"]]


def _p2_case(args):
    """a model with a SECOND policy definition (p2 = sub, act): management calls on p2 through the recording faithful
    adapter; after every call the adapter's p2 rows must be memory's p2 rules, and a call that returns False must not
    have talked to the adapter (implementation side: the Lean enforcer model has the sections p, g, g2)"""
    is_async, init_p, init_p2, script = args[:4]
    variant = args[4] if len(args) > 4 else None  # "prio": the same calls on p of an explicit-priority model
    casbin = common.use_repo()
    import policy_corr as pc

    TEXT, PT = (pc.PRIO, "p") if variant == "prio" else (pc.ACL, "p2")

    ad = ec.make_adapter(casbin, {"p": init_p, "g": [], "g2": []}, is_async=is_async)
    run = ec.run_async if is_async else (lambda x: x)
    if is_async:
        e = casbin.AsyncEnforcer(casbin.AsyncEnforcer.new_model(text=TEXT), ad)
        run(e.load_policy())
    else:
        e = casbin.Enforcer(casbin.Enforcer.new_model(text=TEXT), ad)
    if init_p2:
        run(e.add_named_policies(PT, [list(r) for r in init_p2]))
    out = []
    for op in script:
        n0 = len(ad.log)
        try:
            if op[0] == "add":
                ret = run(e.add_named_policy(PT, *op[1]))
            elif op[0] == "remove":
                ret = run(e.remove_named_policy(PT, *op[1]))
            elif op[0] == "addmany":
                ret = run(e.add_named_policies(PT, [list(r) for r in op[1]]))
            elif op[0] == "removemany":
                ret = run(e.remove_named_policies(PT, [list(r) for r in op[1]]))
            elif op[0] == "removefiltered":
                ret = run(e.remove_filtered_named_policy(PT, op[1], *op[2]))
            elif op[0] == "update":
                ret = run(e.update_named_policy(PT, list(op[1]), list(op[2])))
            elif op[0] == "updatemany":
                ret = run(e.update_named_policies(PT, [list(r) for r in op[1]], [list(r) for r in op[2]]))
            elif op[0] == "updatefiltered":
                ret = run(e.update_filtered_named_policies(PT, [list(r) for r in op[1]], op[2], *op[3]))
            else:
                raise common.Infra("unknown op " + repr(op))
            ret = bool(ret) if not isinstance(ret, list) else (True if ret else False)
        except common.Infra:
            raise
        except Exception as ex:  # noqa
            ret = "!" + type(ex).__name__
        out.append({"ret": ret, "mem": [list(r) for r in e.get_named_policy(PT)], "store": [list(r) for r in ad.store.get(PT, [])], "mem_p": [list(r) for r in e.get_policy()], "store_p": [list(r) for r in ad.store.get("p", [])],
                    "talked": [str(x) for x in ad.log[n0:]]})
    return out


def second_definition_stream(ctx, res, deep):
    rng = ctx["rng"]
    ops = []
    for r in U2:
        ops += [("add", r), ("remove", r)]
    ops += [("addmany", [U2[0], U2[1]]), ("addmany", [U2[2], U2[2]]), ("removemany", [U2[0], U2[1]]), ("removemany", [U2[1], U2[1]]), ("removefiltered", 1, ["read"]), ("removefiltered", 0, ["alice"]),
            ("update", U2[0], U2[3]), ("update", U2[0], U2[1]), ("updatemany", [U2[0], U2[1]], [U2[2], U2[3]])]
    # filtered update: the new rules are absent / held inside the selection / held OUTSIDE the selection (refused) / also held by p
    for new in ([U2[3]], [U2[1]], [U2[0]], [U2[2], U2[3]], []):
        ops += [("updatefiltered", new, 0, ["alice"]), ("updatefiltered", new, 1, ["read"])]
    P3 = [["alice", "data1", "read"], ["bob", "read", "x"]]
    jobs = []
    for is_async in (False, True):
        for init_p2 in ([], U2[:2], U2[:3], U2):
            for a in ops:
                jobs.append((is_async, P3, init_p2, [a]))
        for _ in range(60 if not deep else 600):
            jobs.append((is_async, P3, rng.sample(U2, rng.randint(0, 4)), [rng.choice(ops) for _ in range(rng.randint(2, 5))]))
    # the same on the permission rules of an explicit-priority model (a priority-changing update RAISES: nothing may have
    # been told to the adapter before that)
    UP = [["1", "alice", "d", "read", "allow"], ["2", "bob", "d", "read", "deny"], ["1", "carol", "d", "read", "allow"], ["3", "alice", "d", "write", "deny"]]
    pops = []
    for r in UP:
        pops += [("add", r), ("remove", r), ("update", r, r[:4] + ["deny" if r[4] == "allow" else "allow"]), ("update", r, ["7"] + r[1:])]
    pops += [("addmany", [UP[0], UP[1]]), ("removemany", [UP[0], UP[1]]), ("removefiltered", 1, ["alice"]), ("updatemany", [UP[0], UP[1]], [UP[0][:4] + ["deny"], ["9"] + UP[1][1:]]),
             ("updatemany", [UP[0], UP[1]], [UP[0][:4] + ["deny"], UP[1][:4] + ["allow"]])]
    for is_async in (False, True):
        for init in ([], UP[:2], UP):
            for a in pops:
                jobs.append((is_async, [], init, [a], "prio"))
        for _ in range(30 if not deep else 300):
            jobs.append((is_async, [], rng.sample(UP, rng.randint(0, 4)), [rng.choice(pops) for _ in range(rng.randint(2, 4))], "prio"))
    for job in jobs:
        is_async, init_p, init_p2, script = job[:4]
        out = _p2_case(job)
        res.nontrivial.add(hash(("p2", repr(job))))
        for i, rec in enumerate(out):
            res.evaluations += 1
            res.count("stream:p2:" + script[i][0])
            what = None
            key = lambda l: sorted(map(tuple, l))  # noqa
            if key(rec["mem"]) != key(rec["store"]) or len(rec["mem"]) != len(rec["store"]):
                what = f"memory holds the p2 rules {rec['mem']}, the adapter's store {rec['store']}"
            elif key(rec["mem_p"]) != key(rec["store_p"]):
                what = f"memory holds the p rules {rec['mem_p']}, the adapter's store {rec['store_p']}"
            elif rec["ret"] is False and rec["talked"]:
                what = f"the call returned False and yet told the adapter {rec['talked']}"
            tag = "prio" if len(job) > 4 else "p2"
            if what:
                res.violation({"signature": f"C09:{tag}:{script[i][0]}{':async' if is_async else ''}", "stream": "p2", "job": [is_async, init_p, init_p2, [list(o) for o in script[: i + 1]]] + list(job[4:]),
                               "what": f"model with p and p2, {'AsyncEnforcer' if is_async else 'Enforcer'}, p2 = {init_p2}: after {[list(o) for o in script[: i + 1]]} (result {rec['ret']}) {what}",
                               "expected": "store = memory", "observed": what})
                break


def run(ctx):
    res = common.Result()
    stages = [False] if not ctx["deep"] else ([True] if ctx["proof_ok"] else [False, True])
    for deep in stages:
        ec.run_configs(res, gen(ctx, deep), judge_factory(), fresh_oracle=False)
        second_definition_stream(ctx, res, deep)
        if res.spec_violations:
            break
    res.rule = (
        "RBAC and domain models x 2 initial policies, recording faithful adapter: every history of length <= 2 over the management "
        "alphabet (single/batch/filtered/update, valid, duplicate and rejected calls, save, load), each op followed by load_policy, "
        "each op with auto-save off followed by save_policy, plus seeded random histories of length 3-8; after every call the adapter's "
        "calls and store are compared with memory and with the Lean model; non-trivial/distinct = (configuration, history)"
    )
    res.exhaustive = True
    return res


def replay(obj):
    if obj.get("stream") == "p2":
        j = obj["job"]
        rec = _p2_case((j[0], j[1], j[2], [tuple(o) for o in j[3]]) + tuple(j[4:]))[-1]
        key = lambda l: sorted(map(tuple, l))  # noqa
        return key(rec["mem"]) != key(rec["store"]) or key(rec["mem_p"]) != key(rec["store_p"]) or (rec["ret"] is False and bool(rec["talked"]))
    case = obj["case"]
    c = case["config"]
    cfg = ec.Config(c["shape"], adapter=c["adapter"], watcher=c["watcher"], initial=c["initial"], is_async=c.get("async", False), late=c.get("late", False))
    hist = [tuple(o) for o in case["history"]]
    r = common.Result()
    j = judge_factory()
    out = ec.run_history(cfg, hist, ec.query_set(cfg), fresh_oracle=False)
    for i, (op, rec) in enumerate(zip(hist, out)):
        rec["pre"] = out[i - 1]["pol"] if i else {k: [list(x) for x in cfg.initial.get(k, [])] for k in ("p", "g", "g2")}
        j(r, cfg, hist, i, op, rec, None, case, None)
    return bool(r.spec_violations)
