"""Correspondence of Model/Policy.lean with casbin.model.policy.Policy (unit level) and with the management API of
casbin.Enforcer (both call forms), and evaluation of the ordered-set / priority-order specification (C06, C07)
on the real code.  Histories are generated up front, sent to the stateful `policy` driver family in one batch,
executed on the real objects, and compared answer by answer."""
import itertools
import multiprocessing as mp

import common
from common import enc_list, enc_rule, enc_rules, enc_str, dec_rules, parse_ms, run_driver

ACL = """[request_definition]
r = sub, obj, act
[policy_definition]
p = sub, obj, act
p2 = sub, act
[policy_effect]
e = some(where (p.eft == allow))
[matchers]
m = r.sub == p.sub && r.obj == p.obj && r.act == p.act
"""
RBAC = """[request_definition]
r = sub, obj, act
[policy_definition]
p = sub, obj, act
[role_definition]
g = _, _
[policy_effect]
e = some(where (p.eft == allow))
[matchers]
m = g(r.sub, p.sub) && r.obj == p.obj && r.act == p.act
"""
PRIO = """[request_definition]
r = sub, obj, act
[policy_definition]
p = priority, sub, obj, act, eft
[policy_effect]
e = priority(p.eft) || deny
[matchers]
m = r.sub == p.sub && r.obj == p.obj && r.act == p.act
"""

# the priority field in the LAST position (every bundled example has it first)
PRIO_LAST = PRIO.replace("p = priority, sub, obj, act, eft", "p = sub, obj, act, eft, priority")

# two policy definitions: the first WITHOUT a priority field, the second with one (selected through an enforce context)
PRIO2 = """[request_definition]
r = sub, obj, act
r2 = sub, obj, act
[policy_definition]
p = sub, obj, act
p2 = priority, sub, obj, act, eft
[policy_effect]
e = some(where (p.eft == allow))
e2 = priority(p.eft) || deny
[matchers]
m = r.sub == p.sub && r.obj == p.obj && r.act == p.act
m2 = r2.sub == p2.sub && r2.obj == p2.obj && r2.act == p2.act
"""

DOM = """[request_definition]
r = sub, dom, obj, act
[policy_definition]
p = sub, dom, obj, act
[role_definition]
g = _, _, _
[policy_effect]
e = some(where (p.eft == allow))
[matchers]
m = g(r.sub, p.sub, r.dom) && r.dom == p.dom && r.obj == p.obj && r.act == p.act
"""
# role assignments that carry link-condition parameters (g = _, _, (_, _): "temporal roles"); the rule set is the same
# kind of ordered set, the role definition only adds two stored parameters per assignment
COND = RBAC.replace("g = _, _\n", "g = _, _, (_, _)\n")
GC_RULES = [["alice", "admin", "t0", "t9"], ["bob", "admin", "t0", "t9"], ["admin", "root", "t1", "t2"]]
GD_RULES = [["alice", "admin", "d1"], ["bob", "admin", "d1"], ["alice", "admin", "d2"]]

P_RULES = [["alice", "data1", "read"], ["bob", "data1", "read"], ["alice", "data2", "write"]]
G_RULES = [["alice", "admin"], ["bob", "admin"], ["admin", "root"]]


class ListAdapter:
    """a minimal in-memory adapter: delivers its rules on load and mirrors every auto-save call in ARRIVAL order (adds are
    appended, updates replace in place), so that a reload presents the rules in the order they arrived"""

    def __init__(self, casbin, rules):
        self.rules = [(s_, p_, list(r)) for s_, p_, r in rules]

    def load_policy(self, model):
        for sec, ptype, rule in self.rules:
            model.model[sec][ptype].policy.append(list(rule))

    def save_policy(self, model):
        return True

    def _has(self, sec, ptype, rule):
        return (sec, ptype, list(rule)) in self.rules

    def add_policy(self, sec, ptype, rule):
        if not self._has(sec, ptype, rule):
            self.rules.append((sec, ptype, list(rule)))

    def add_policies(self, sec, ptype, rules):
        for r in rules:
            self.add_policy(sec, ptype, r)

    def remove_policy(self, sec, ptype, rule):
        self.rules = [x for x in self.rules if x != (sec, ptype, list(rule))]

    def remove_policies(self, sec, ptype, rules):
        for r in rules:
            self.remove_policy(sec, ptype, r)

    def remove_filtered_policy(self, sec, ptype, field_index, *field_values):
        def m(rule):
            return all(v == "" or (field_index + i < len(rule) and rule[field_index + i] == v) for i, v in enumerate(field_values))

        self.rules = [x for x in self.rules if not (x[0] == sec and x[1] == ptype and m(x[2]))]

    def update_policy(self, sec, ptype, old_rule, new_rule):
        self.rules = [(sec, ptype, list(new_rule)) if x == (sec, ptype, list(old_rule)) else x for x in self.rules]

    def update_policies(self, sec, ptype, old_rules, new_rules):
        for o, n in zip(old_rules, new_rules):
            self.update_policy(sec, ptype, o, n)


def make_adapter(casbin, rules):
    from casbin import persist

    cls = type("ListAdapterImpl", (ListAdapter, persist.Adapter), {})
    return cls(casbin, rules)


def fmt_exc(ex):
    if isinstance(ex, IndexError):
        return "!IndexError"
    if str(ex) == "New rule should have the same priority with old rule.":
        return "!priorityMismatch"
    return f"!other:{type(ex).__name__}:{str(ex)[:50]}"


def res_str(r):
    if isinstance(r, bool):
        return "T" if r else "F"
    if isinstance(r, list):
        return enc_rules(r)
    if r is None:
        return "-"
    return f"!nonbool:{r!r}"


# ------------------------------------------------------------------ op -> (lean line, impl call)


def lean_line(op, pi, pt):
    """op = (name, sec, ptype, args...)"""
    name, sec, ptype = op[0], op[1], op[2]
    k = f"{sec}:{ptype}"
    pis = "-" if (pi is None or sec != "p") else str(pi)
    pts = "-" if (pt is None or sec != "p") else str(pt)
    if name == "add":
        return "\t".join(["add", k, pis, enc_rule(op[3])])
    if name == "addmany":
        return "\t".join(["addmany", k, pis, enc_rules(op[3])])
    if name == "remove":
        return "\t".join(["remove", k, pis, enc_rule(op[3])])
    if name == "removemany":
        return "\t".join(["removemany", k, pis, enc_rules(op[3])])
    if name == "removefiltered":
        fam = "removefiltered" if sec == "p" else "removefilteredeff"
        return "\t".join([fam, k, pis, str(op[3]), enc_list([enc_str(v) for v in op[4]])])
    if name == "update":
        return "\t".join(["update", k, pts, enc_rule(op[3]), enc_rule(op[4])])
    if name == "updatemany":
        return "\t".join(["updatemany", k, pts, enc_rules(op[3]), enc_rules(op[4])])
    if name == "has":
        return "\t".join(["has", k, enc_rule(op[3])])
    if name in ("get", "enforce"):
        return "\t".join(["get", k, pis])
    if name == "getfiltered":
        return "\t".join(["getfiltered", k, pis, str(op[3]), enc_list([enc_str(v) for v in op[4]])])
    if name == "removewitheffected":
        return "\t".join(["removewitheffected", k, enc_rules(op[3])])
    if name == "values":
        return "\t".join(["values", k, str(op[3])])
    if name == "clearall":
        return "\t".join(["clearkey", k])
    if name == "reload":
        # load_policy from the mirrored store: the stored order is the stable sort of what the store holds (= arrival order)
        return "\t".join(["sortprio", k, pis]) if pis != "-" else "\t".join(["get", k, pis])
    if name == "autobuild":
        return "\t".join(["get", k, pis])  # a flag: no change of the rule set
    if name == "updatefiltered":
        return "\t".join(["updatefiltered", k, enc_rules(op[3]), str(op[4]), enc_list([enc_str(v) for v in op[5]])])
    if name == "removeread":
        return "\t".join(["removeread", k, pis, str(op[3]), enc_list([enc_str(v) for v in (op[4] or [])])])
    if name == "updateread":
        return "\t".join(["updateread", k, pts, op[3]])
    raise ValueError(name)


def impl_call(e, op, form):
    """run op on the real Enforcer through the public management API. form: 0 = varargs, 1 = list argument, 2 = unnamed API"""
    name, sec, ptype = op[0], op[1], op[2]
    G = sec == "g"
    unnamed = form == 2 and ptype == sec

    def cp(x):
        return [list(r) for r in x]

    if name == "add":
        r = list(op[3])
        if G:
            if unnamed:
                return e.add_grouping_policy(*r)
            return e.add_named_grouping_policy(ptype, r) if form == 1 else e.add_named_grouping_policy(ptype, *r)
        if unnamed:
            return e.add_policy(*r)
        return e.add_named_policy(ptype, r) if form == 1 else e.add_named_policy(ptype, *r)
    if name == "addmany":
        if G:
            return e.add_grouping_policies(cp(op[3])) if unnamed else e.add_named_grouping_policies(ptype, cp(op[3]))
        return e.add_policies(cp(op[3])) if unnamed else e.add_named_policies(ptype, cp(op[3]))
    if name == "remove":
        r = list(op[3])
        if G:
            if unnamed:
                return e.remove_grouping_policy(*r)
            return e.remove_named_grouping_policy(ptype, r) if form == 1 else e.remove_named_grouping_policy(ptype, *r)
        if unnamed:
            return e.remove_policy(*r)
        return e.remove_named_policy(ptype, r) if form == 1 else e.remove_named_policy(ptype, *r)
    if name == "removemany":
        if G:
            return e.remove_grouping_policies(cp(op[3])) if unnamed else e.remove_named_grouping_policies(ptype, cp(op[3]))
        return e.remove_policies(cp(op[3])) if unnamed else e.remove_named_policies(ptype, cp(op[3]))
    if name == "removefiltered":
        if G:
            return e.remove_filtered_grouping_policy(op[3], *op[4]) if unnamed else e.remove_filtered_named_grouping_policy(ptype, op[3], *op[4])
        return e.remove_filtered_policy(op[3], *op[4]) if unnamed else e.remove_filtered_named_policy(ptype, op[3], *op[4])
    if name == "update":
        return e.update_policy(list(op[3]), list(op[4])) if unnamed else e.update_named_policy(ptype, list(op[3]), list(op[4]))
    if name == "updatemany":
        return e.update_policies(cp(op[3]), cp(op[4])) if unnamed else e.update_named_policies(ptype, cp(op[3]), cp(op[4]))
    if name == "has":
        r = list(op[3])
        if G:
            return e.has_named_grouping_policy(ptype, r) if form == 1 else e.has_named_grouping_policy(ptype, *r)
        return e.has_named_policy(ptype, r) if form == 1 else e.has_named_policy(ptype, *r)
    if name == "get":
        return cp(e.get_named_grouping_policy(ptype) if G else e.get_named_policy(ptype))
    if name == "enforce":
        if ptype[1:]:
            # a second policy definition (p2 ...): the request goes through an enforce context selecting r2/p2/e2/m2
            return e.enforce(e.new_enforce_context(ptype[1:]), *op[3])
        return e.enforce(*op[3])
    if name == "getfiltered":
        return cp(e.get_filtered_named_grouping_policy(ptype, op[3], *op[4]) if G else e.get_filtered_named_policy(ptype, op[3], *op[4]))
    if name == "clearall":
        # clear_policy never talks to the adapter; the harness empties the store as well, so that it keeps mirroring memory
        ad = e.get_adapter()
        if ad is not None and hasattr(ad, "rules"):
            ad.rules = []
        return e.clear_policy()
    if name == "reload":
        return e.load_policy()
    if name == "autobuild":
        e.enable_auto_build_role_links(op[3])
        return cp(e.get_named_grouping_policy(ptype) if G else e.get_named_policy(ptype))
    if name == "updatefiltered":
        return e.update_filtered_policies(cp(op[3]), op[4], *op[5]) if unnamed else e.update_filtered_named_policies(ptype, cp(op[3]), op[4], *op[5])
    if name == "removeread":
        # the batch argument is the very object a read returned (op[4] None: get_policy, else get_filtered_policy)
        if G:
            got = e.get_named_grouping_policy(ptype) if op[4] is None else e.get_filtered_named_grouping_policy(ptype, op[3], *op[4])
            return e.remove_named_grouping_policies(ptype, got)
        got = e.get_named_policy(ptype) if op[4] is None else e.get_filtered_named_policy(ptype, op[3], *op[4])
        return e.remove_named_policies(ptype, got)
    if name == "updateread":
        got = e.get_named_policy(ptype)
        return e.update_named_policies(ptype, got, [list(r[:-1]) + [r[-1] + op[3]] for r in got])
    raise ValueError(name)


def unit_call(m, op):
    """run op directly on casbin.model.Model (policy.py)"""
    name, sec, ptype = op[0], op[1], op[2]

    def cp(x):
        return [list(r) for r in x]

    if name == "add":
        return m.add_policy(sec, ptype, list(op[3]))
    if name == "addmany":
        return m.add_policies(sec, ptype, cp(op[3]))
    if name == "remove":
        return m.remove_policy(sec, ptype, list(op[3]))
    if name == "removemany":
        return m.remove_policies(sec, ptype, cp(op[3]))
    if name == "removefiltered":
        if sec == "g":
            return m.remove_filtered_policy_returns_effects(sec, ptype, op[3], *op[4])
        return m.remove_filtered_policy(sec, ptype, op[3], *op[4])
    if name == "update":
        return m.update_policy(sec, ptype, list(op[3]), list(op[4]))
    if name == "updatemany":
        return m.update_policies(sec, ptype, cp(op[3]), cp(op[4]))
    if name == "has":
        return m.has_policy(sec, ptype, list(op[3]))
    if name == "get":
        return cp(m.get_policy(sec, ptype))
    if name == "getfiltered":
        return cp(m.get_filtered_policy(sec, ptype, op[3], *op[4]))
    if name == "removewitheffected":
        return cp(m.remove_policies_with_effected(sec, ptype, cp(op[3])))
    if name == "values":
        return m.get_values_for_field_in_policy(sec, ptype, op[3])
    if name == "removeread":
        got = m.get_policy(sec, ptype) if op[4] is None else m.get_filtered_policy(sec, ptype, op[3], *op[4])
        return m.remove_policies(sec, ptype, got)
    if name == "updateread":
        got = m.get_policy(sec, ptype)
        return m.update_policies(sec, ptype, got, [list(r[:-1]) + [r[-1] + op[3]] for r in got])
    raise ValueError(name)


# ------------------------------------------------------------------ histories

MUTATORS = ("add", "addmany", "remove", "removemany", "removefiltered", "update", "updatemany", "removewitheffected", "removeread", "updateread", "updatefiltered", "clearall", "reload")


def op_alphabet(sec, ptype, rules, with_update=True, read_fed=False):
    ops = []
    for r in rules:
        ops.append(("add", sec, ptype, r))
        ops.append(("remove", sec, ptype, r))
    batches = [[a] for a in rules] + [[a, b] for a in rules for b in rules]
    for b in batches:
        ops.append(("addmany", sec, ptype, b))
        ops.append(("removemany", sec, ptype, b))
    ops.append(("addmany", sec, ptype, []))
    ops.append(("removemany", sec, ptype, []))
    width = len(rules[0])
    vals = sorted({v for r in rules for v in r})
    flts = [(0, [rules[0][0]]), (1, [rules[0][1]]), (0, ["", rules[0][1]]), (0, [rules[0][0], rules[0][1]]), (width - 1, [rules[0][-1]]),
            (0, ["nobody"]), (0, [""]), (0, []), (width - 1, ["", "x"]), (width, ["x"])]
    for idx, fv in flts:
        ops.append(("removefiltered", sec, ptype, idx, fv))
    if with_update and sec == "p":
        for a in rules:
            for b in rules + [rules[0][:-1] + ["other"]]:
                ops.append(("update", sec, ptype, a, b))
        ops.append(("updatemany", sec, ptype, [rules[0], rules[1]], [rules[1], rules[0]]))
        ops.append(("updatemany", sec, ptype, [rules[0], rules[1]], [rules[2], rules[2]]))
        ops.append(("updatemany", sec, ptype, [rules[0]], [rules[0][:-1] + ["other"]]))
        ops.append(("updatemany", sec, ptype, [rules[0], rules[1]], [rules[2]]))
        # batch shapes of update_policies: the same OLD rule twice (to two rules / to one rule), a chain through a rule
        # that is itself replaced, a new rule that is a kept rule, three pairs rotating
        other2 = rules[1][:-1] + ["other"]
        ops.append(("updatemany", sec, ptype, [rules[0], rules[0]], [rules[0][:-1] + ["other"], other2]))
        ops.append(("updatemany", sec, ptype, [rules[0], rules[0]], [other2, other2]))
        ops.append(("updatemany", sec, ptype, [rules[0], rules[1]], [rules[1], other2]))
        ops.append(("updatemany", sec, ptype, [rules[0], rules[1]], [other2, rules[2]]))
        ops.append(("updatemany", sec, ptype, [rules[0], rules[1], rules[2]], [rules[1], rules[2], rules[0]]))
    if read_fed:
        # batch calls whose argument is the object returned by a read ("remove everything I can see")
        ops.append(("removeread", sec, ptype, 0, None))
        for idx, fv in [(0, []), (0, [""]), (0, [rules[0][0]]), (1, [rules[0][1]]), (0, ["nobody"])]:
            ops.append(("removeread", sec, ptype, idx, fv))
        if with_update and sec == "p":
            ops.append(("updateread", sec, ptype, "x"))
    return ops, flts


def updatefiltered_alphabet(sec, ptype, rules):
    """update_filtered_(named_)policies (enforcer level, p sections): applies / new rule equal to a selected one / a rule
    repeated in the batch / collision with an unselected rule / no new rules / nothing selected / out-of-range filter"""
    a, b, c = rules[0], rules[1], rules[2]
    fresh = [a[:-1] + ["other"], b[:-1] + ["other"]]
    ops = []
    for idx, fv in [(0, [a[0]]), (1, [a[1]]), (0, ["nobody"]), (0, [""]), (len(a), ["x"])]:
        for news in ([fresh[0]], [fresh[0], a], [fresh[0], fresh[0]], [fresh[0], b], [fresh[1], c], [], [a, b, c]):
            ops.append(("updatefiltered", sec, ptype, news, idx, fv))
    return ops


def reads_for(sec, ptype, rules, flts):
    rs = [("get", sec, ptype)]
    for r in rules:
        rs.append(("has", sec, ptype, r))
    for idx, fv in flts[:5] + flts[-2:]:
        rs.append(("getfiltered", sec, ptype, idx, fv))
    return rs


class Shape:
    def __init__(self, name, text, sec, ptype, rules, pi=None, pt=None, initial=None, level="enforcer"):
        self.name, self.text, self.sec, self.ptype, self.rules = name, text, sec, ptype, rules
        self.pi, self.pt, self.initial, self.level = pi, pt, initial or [], level
        self.sigtag = ""  # appended to violation signatures (a rule universe of its own, e.g. negative priorities)


def run_history(shape, hist, form):
    """execute one history on the real code; returns the list of result strings (one per op incl. interleaved reads)"""
    casbin = common.use_repo()
    out = []
    if shape.level == "unit":
        m = casbin.Enforcer.new_model(text=shape.text)
        for r in shape.initial:
            m.model[shape.sec][shape.ptype].policy.append(list(r))
        if shape.pi is not None:
            m.sort_policies_by_priority()
        target = m
        call = lambda op: unit_call(m, op)  # noqa
    else:
        m = casbin.Enforcer.new_model(text=shape.text)
        ad = make_adapter(casbin, [(shape.sec, shape.ptype, r) for r in shape.initial])
        try:
            e = casbin.Enforcer(m, ad)
        except Exception as ex:  # noqa
            # the initial load itself raised: every step shows that (nothing is stored)
            return [("!load:" + type(ex).__name__, enc_rules([])) for _ in hist]
        target = e
        call = lambda op: impl_call(e, op, form)  # noqa
    for op in hist:
        try:
            r = call(op)
            s = enc_list([enc_str(v) for v in r]) if op[0] == "values" else res_str(r)
        except Exception as ex:  # noqa
            s = fmt_exc(ex)
        if shape.level == "unit":
            pol = [list(x) for x in target.get_policy(op[1], op[2])]
        else:
            pol = [list(x) for x in (target.get_named_grouping_policy(op[2]) if op[1] == "g" else target.get_named_policy(op[2]))]
        out.append((s, enc_rules(pol)))
    return out


def _worker(args):
    shape, hists, form = args
    return [run_history(shape, h, form) for h in hists]


def lean_history(shape, hist):
    lines = ["#reset"]
    if shape.initial:
        lines.append("\t".join(["set", f"{shape.sec}:{shape.ptype}", enc_rules(shape.initial)]))
        if shape.pi is not None:
            lines.append("\t".join(["sortprio", f"{shape.sec}:{shape.ptype}", str(shape.pi)]))
    for op in hist:
        lines.append(lean_line(op, shape.pi, shape.pt))
    return lines


def interleave_reads(hist, reads, rng=None, every=True):
    out = []
    for op in hist:
        out.append(op)
        if op[0] in MUTATORS:
            if every:
                out.extend(reads)
            elif rng is not None:
                out.extend(rng.sample(reads, min(3, len(reads))))
    return out


def first_match_decision(policy, req, shape):
    off = 1 if shape.pi is not None else 0
    if shape.pi:
        # the priority field is not the first one: take it out, the other fields follow the request's order
        policy = [list(r[: shape.pi]) + list(r[shape.pi + 1 :]) for r in policy]
        off = 0
    for r in policy:
        if list(r[off : off + len(req)]) == list(req) and len(r) > off + len(req) and r[off + len(req)] in ("allow", "deny"):
            return "T" if r[off + len(req)] == "allow" else "F"
    return "F"


def _uf_kind(prev_pol, op):
    import enf_corr

    return enf_corr.updatefiltered_kind(dec_rules(prev_pol), ("updatefiltered", op[3], op[4], op[5]))


def compare(prop, res, shape, hist, impl, answers, want):
    """answers: driver answers aligned with hist. want: 'set' (C06) or 'order' (C07)"""
    prev_pol = enc_rules(shape.initial) if shape.pi is None else None
    for i, (op, (ires, ipol), ans) in enumerate(zip(hist, impl, answers)):
        if ans in ("bad-op", "out-of-domain"):
            raise common.Infra(f"driver answered {ans} for {op}")
        model, spec = parse_ms(ans)
        mres, mpol = model.split("@", 1)
        if op[0] == "enforce":
            # the decision the property prescribes: effect of the first rule, in the given order, that matches with a
            # definite effect, else deny (priority effect; C01 proves enforce = this over the stored order)
            mres = first_match_decision(dec_rules(mpol), op[3], shape)
            model = mres + "@" + mpol
            if spec != "?":
                spol0 = spec.split("@", 1)[1]
                spec = first_match_decision(dec_rules(spol0), op[3], shape) + "@" + spol0
        res.evaluations += 1
        res.count("op:" + op[0])
        res.count("result:" + (ires if ires in ("T", "F", "-") or ires.startswith("!") else "list"))
        case = {"shape": shape.name, "history": hist[: i + 1], "step": i}
        if (ires, ipol) != (mres, mpol):
            res.disagree({"what": f"{shape.name}: {op[0]} result/policy differs from Model/Policy.lean", "case": case, "impl": [ires, dec_rules(ipol)], "model": [mres, dec_rules(mpol)]})
        if spec != "?":
            sres, spol = spec.split("@", 1)
            if sres != "?" and (mres, mpol) != (sres, spol):
                res.model_vs_spec.append({"case": case, "model": model, "spec": spec})
            bad = None
            dup_batch = op[0] in ("addmany", "removemany") and len({tuple(r) for r in op[3]}) < len(op[3])
            if dup_batch and sres == "T" and ires == "F" and prev_pol is not None and ipol == prev_pol:
                # a batch naming the same rule twice may also be rejected as a whole: "applies to all or changes nothing"
                return
            if sres != "?" and ires != sres:
                bad = f"returned {ires}, the ordered-set specification gives {sres}"
            elif ipol != spol:
                bad = f"stored policy {dec_rules(ipol)} differs from the specified {'order' if want == 'order' else 'set'} {dec_rules(spol)}"
            if bad:
                res.violation(
                    {
                        "signature": (f"{prop}:load-raises:{shape.sec}:prio" if ires.startswith("!load:") else f"{prop}:{'order' if getattr(shape, 'sigtag', '') else op[0]}:{shape.sec}:{'prio' if shape.pi is not None else 'plain'}") + getattr(shape, "sigtag", "") + (":" + _uf_kind(prev_pol, op) if op[0] == "updatefiltered" and prev_pol is not None else "") + (":novalues" if op[0] == "removefiltered" and len(op[4]) == 0 else ""),
                        "what": f"{shape.name}: {op[0]}{tuple(op[3:])} {bad}",
                        "case": case,
                        "model_text": shape.text,
                        "initial": shape.initial,
                        "expected": [sres, dec_rules(spol)],
                        "observed": [ires, dec_rules(ipol)],
                        "level": shape.level,
                    }
                )
                return  # later steps of a history that already diverged are noise
        elif (ires, ipol) != (mres, mpol):
            # the specification is silent about this call (it raised): go on - what the reads after it show is judged
            # (a call that raises must not leave the stored rules out of order / changed)
            pass
        prev_pol = ipol


def run_batch(prop, res, shape, hists, want, forms=(0,), procs=12):
    """hists: list of op lists (reads already interleaved)"""
    if not hists:
        return
    lines = []
    spans = []
    for h in hists:
        ll = lean_history(shape, h)
        skip = len(ll) - len(h)
        spans.append((len(lines) + skip, len(lines) + len(ll)))
        lines.extend(ll)
    answers = run_driver("policy", lines)
    for form in forms:
        chunk = max(1, len(hists) // (procs * 4))
        jobs = [(shape, hists[i : i + chunk], form) for i in range(0, len(hists), chunk)]
        if len(hists) < 200:
            outs = [_worker(j) for j in jobs]
        else:
            with mp.Pool(procs) as pool:
                outs = pool.map(_worker, jobs)
        impls = [x for o in outs for x in o]
        for h, impl, (a, b) in zip(hists, impls, spans):
            compare(prop, res, shape, h, impl, answers[a:b], want)
            key = (shape.name, repr(h))
            if any(op[0] in MUTATORS for op in h):
                res.nontrivial.add(hash(key))
        if hists:
            res.sample({"shape": shape.name, "form": form, "history": hists[len(hists) // 2][:6]})


def replay(obj):
    """re-execute the recorded history on the real code and compare with the recorded expectation"""
    case = obj["case"]
    shape = None
    for s in all_shapes():
        if s.name == case["shape"]:
            shape = s
    if shape is None:
        sec, ptype = (case["history"][0][1], case["history"][0][2]) if case["history"] else ("p", "p")
        shape = Shape(case["shape"], obj["model_text"], sec, ptype, P_RULES, initial=obj.get("initial"), level=obj.get("level", "enforcer"))
    hist = [tuple(o) for o in case["history"]]
    impl = run_history(shape, hist, 0)
    ires, ipol = impl[-1]
    exp_res, exp_pol = obj["expected"]
    return (exp_res != "?" and ires != exp_res) or dec_rules(ipol) != exp_pol


def all_shapes():
    return [
        Shape("acl/enforcer", ACL, "p", "p", P_RULES),
        Shape("acl/unit", ACL, "p", "p", P_RULES, level="unit"),
        Shape("acl-p2/enforcer", ACL, "p", "p2", [["alice", "read"], ["bob", "read"], ["alice", "write"]]),
        Shape("rbac-g/enforcer", RBAC, "g", "g", G_RULES),
        Shape("rbac-g/unit", RBAC, "g", "g", G_RULES, level="unit"),
        Shape("dom-g/enforcer", DOM, "g", "g", GD_RULES),
        Shape("cond-g/enforcer", COND, "g", "g", GC_RULES),
        # values containing the separator: different rules whose comma-joined texts are equal
        Shape("acl-comma/enforcer", ACL, "p", "p", [["team,blue", "report", "read"], ["team", "blue,report", "read"], ["team,blue", "report,read", ""]]),
    ]
