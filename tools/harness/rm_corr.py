"""Correspondence of Model/RoleManager.lean (driver family `rm`) with the real role managers
(casbin/rbac/default_role_manager/role_manager.py, generate_g_function, Assertion.build_*role_links) and evaluation of
the C03 / C14 specification (path semantics over the assignments in force, driver column `spec=`) on the real code.
Shared by props/c03.py and props/c14.py.

A *history* is a dict {kind, L, ops, stream, scope}; an op is a list:
  ["add",u,r,*dom] ["del",u,r,*dom] ["has",u,r,*dom] ["roles",u,*dom] ["users",r,*dom] ["clear"]
  ["matchfn",fname] ["dmatchfn",fname] ["condfn",u,r,d,id] ["params",u,r,d,[p..]]
  ["g",[args]] ["build",count,rules] ["incr",count,op,rules]
Every op yields one answer on the three sides (implementation / Lean model / Lean spec)."""
import multiprocessing
import re as _re

import common
from common import enc_list, enc_rules, enc_str, parse_ms, run_driver

KINDS = ("plain", "cond", "domain", "conddomain")


# ------------------------------------------------------------------ user supplied functions


def _regex_full(k, p):
    return _re.fullmatch(p, k) is not None


def _raising(k, p):
    if p == "/b/*" and k != p:
        raise ValueError("boom")
    return k == p


def _raising_one(k, p):
    """key_match, except that ONE pattern name makes the function raise (e.g. a name that is not a valid pattern of the
    function's language): the other patterns must keep matching"""
    if p == "bad(" and k != p:
        raise ValueError("boom")
    casbin = common.use_repo()
    from casbin import util

    return util.key_match(k, p)


def match_fn(name):
    casbin = common.use_repo()
    from casbin import util

    return {
        "key_match": util.key_match,
        "key_match2": util.key_match2,
        "key_match3": util.key_match3,
        "regex": _regex_full,
        "eq": lambda a, b: a == b,
        # only real `prefix*` patterns match: NOT reflexive on concrete names (a name does not match its own text)
        "prefix_star": lambda k, p: p.endswith("*") and k.startswith(p[:-1]),
        "raising": _raising,
        "raising_one": _raising_one,
    }[name]


def _safe(fn, a, b):
    try:
        return bool(fn(a, b))
    except Exception:  # match_error_handler
        return False


COND = {
    "T": lambda *ps: True,
    "F": lambda *ps: False,
    "P0": lambda *ps: len(ps) > 0 and ps[0] == "T",
    "ALL": lambda *ps: all(p == "T" for p in ps),
}


def universe(h):
    names = set([""])
    for op in h["ops"]:
        k = op[0]
        if k in ("add", "del", "has", "roles", "users"):
            names.update(op[1:])
        elif k in ("condfn", "params"):
            names.update(op[1:4])
        elif k == "g":
            names.update(op[1])
        elif k in ("build", "incr"):
            for r in op[-1]:
                names.update(r)
    return sorted(names)


def pairs_field(fname, names):
    fn = match_fn(fname)
    items = [enc_str(a) + "|" + enc_str(b) for a in names for b in names if _safe(fn, a, b)]
    return enc_list(items)


# ------------------------------------------------------------------ driver side


def lean_lines(h):
    names = universe(h)
    lines = ["#reset", "\t".join(["new", h["kind"], str(h["L"])])]
    for op in h["ops"]:
        k = op[0]
        if k in ("add", "del", "has", "roles", "users"):
            lines.append("\t".join([k] + [enc_str(x) for x in op[1:]]))
        elif k == "clear":
            lines.append("clear")
        elif k in ("matchfn", "dmatchfn"):
            lines.append(k + "\t" + pairs_field(op[1], names))
        elif k == "condfn":
            lines.append("\t".join(["condfn", enc_str(op[1]), enc_str(op[2]), enc_str(op[3]), op[4]]))
        elif k == "params":
            lines.append("\t".join(["params", enc_str(op[1]), enc_str(op[2]), enc_str(op[3]), enc_list([enc_str(p) for p in op[4]])]))
        elif k == "g":
            lines.append("g\t" + enc_list([enc_str(x) for x in op[1]]))
        elif k == "build":
            lines.append("\t".join(["build", str(op[1]), enc_rules(op[2])]))
        elif k == "incr":
            lines.append("\t".join(["incr", str(op[1]), op[2], enc_rules(op[3])]))
        else:
            raise common.Infra(f"unknown op {op!r}")
    return lines


def canon(ans):
    """sort list answers (they come out of Python sets)"""
    if ans in ("T", "F", "ok", "?", "~") or ans.startswith("!"):
        return ans
    return enc_list(sorted(common.dec_list(ans), key=lambda s: common.dec_str(s)))


# ------------------------------------------------------------------ implementation side


def new_impl(kind, L):
    common.use_repo()
    from casbin.rbac.default_role_manager import role_manager as rmmod

    if kind == "plain":
        return rmmod.RoleManager(L)
    if kind == "cond":
        return rmmod.ConditionalRoleManager(L)
    if kind == "domain":
        return rmmod.DomainManager(L)
    if kind == "conddomain":
        return rmmod.ConditionalDomainManager(L)
    if kind == "none":
        return None
    raise common.Infra("kind " + kind)


def fmt_exc(ex):
    s = str(ex)
    if isinstance(ex, KeyError):
        return "!keyError"
    if isinstance(ex, RuntimeError) and s.startswith("error: link between"):
        return "!linkMissing"  # (no longer raised after the fix: commits; kept so that a regression is named)
    if isinstance(ex, RuntimeError) and "domain should be 1 parameter" in s:
        return "!domainArity"
    if isinstance(ex, RuntimeError) and 'the number of "_"' in s:
        return "!badRoleDef"
    if isinstance(ex, (RuntimeError, TypeError)) and "do not meet role definition" in s:
        return "!shortRule"
    if isinstance(ex, TypeError) and s.startswith("Invalid operation"):
        return "!badOp"
    if isinstance(ex, IndexError):
        return "!indexError"
    return f"!other:{type(ex).__name__}:{s[:60]}"


def enc_names(l):
    return enc_list(sorted(enc_str(x) for x in set(l)) if False else [enc_str(x) for x in sorted(set(l))])


def impl_run(h):
    """answers of the real classes, one per op"""
    common.use_repo()
    from casbin.model.assertion import Assertion
    from casbin.model.policy_op import PolicyOp
    from casbin.util import generate_conditional_g_function, generate_g_function

    kind = h["kind"]
    rm = new_impl(kind, h["L"])
    out = []
    gf = None  # ONE generated g function serves every consecutive g query (as one enforce call does); any other op ends it
    for op in h["ops"]:
        k = op[0]
        if k != "g":
            gf = None
        try:
            if k == "add":
                rm.add_link(*op[1:])
                out.append("ok")
            elif k == "del":
                rm.delete_link(*op[1:])
                out.append("ok")
            elif k == "has":
                r = rm.has_link(*op[1:])
                out.append("T" if r is True else "F" if r is False else f"!nonbool:{r!r}")
            elif k == "roles":
                out.append(enc_names(rm.get_roles(*op[1:])))
            elif k == "users":
                out.append(enc_names(rm.get_users(*op[1:])))
            elif k == "clear":
                rm.clear()
                out.append("ok")
            elif k == "matchfn":
                rm.add_matching_func(match_fn(op[1]))
                out.append("ok")
            elif k == "dmatchfn":
                rm.add_domain_matching_func(match_fn(op[1]))
                out.append("ok")
            elif k == "condfn":
                rm.add_domain_link_condition_func(op[1], op[2], op[3], COND[op[4]])
                out.append("ok")
            elif k == "params":
                rm.set_domain_link_condition_func_params(op[1], op[2], op[3], *op[4])
                out.append("ok")
            elif k == "g":
                if gf is None:
                    gf = generate_conditional_g_function(rm) if kind in ("cond", "conddomain") else generate_g_function(rm)
                r = gf(*op[1])
                out.append("T" if r is True else "F" if r is False else f"!nonbool:{r!r}")
            elif k == "build":
                a = Assertion()
                a.key = "g"
                a.value = ", ".join(["_"] * op[1])
                a.policy = [list(r) for r in op[2]]
                a.build_role_links(rm)
                out.append("ok")
            elif k == "incr":
                a = Assertion()
                a.key = "g"
                a.value = ", ".join(["_"] * op[1])
                pop = {"add": PolicyOp.Policy_add, "remove": PolicyOp.Policy_remove, "other": None}[op[2]]
                a.build_incremental_role_links(rm, pop, [list(r) for r in op[3]])
                out.append("ok")
            else:
                raise common.Infra(f"unknown op {op!r}")
        except common.Infra:
            raise
        except Exception as ex:  # noqa
            out.append(fmt_exc(ex))
    return out


# ------------------------------------------------------------------ comparison


def run_chunk(hs):
    """three-way comparison of a list of histories; returns plain data (picklable)"""
    lines = []
    for h in hs:
        lines += lean_lines(h)
    answers = run_driver("rm", lines)
    pos = 0
    out = {"evals": 0, "dist": {}, "viol": [], "dis": [], "mvs": [], "nontrivial": set(), "traces": 0}
    dist = out["dist"]

    def cnt(k, n=1):
        dist[k] = dist.get(k, 0) + n

    for h in hs:
        n = len(h["ops"])
        ans = answers[pos + 2 : pos + 2 + n]
        if answers[pos + 1] != "ok":
            raise common.Infra("driver rm: 'new' answered " + answers[pos + 1])
        pos += 2 + n
        impl = impl_run(h)
        out["traces"] += 1
        cnt("stream:" + h["stream"])
        cnt("kind:" + h["kind"])
        cnt("len:" + str(min(len(h["ops"]), 40) // 5 * 5) + "+")
        first_bad = None
        recorded, dm_on, users_untied = set(), False, False
        for i, (op, a, im) in enumerate(zip(h["ops"], ans, impl)):
            # DomainManager.delete_link under a domain matching function drops the cached managers of the matching domains
            # also when the link was not recorded; Model/RoleManager.lean (DM.deleteLink) keeps them in that case. has_link /
            # get_roles cannot tell (cached = rebuilt, Props/C14Dom), only the "names seen so far" part of get_users can:
            # from such a call on the get_users answers are not tied to the model (they are still judged against the spec)
            if op[0] == "add":
                recorded.add(tuple(op[1:]))
            elif op[0] == "del":
                if dm_on and tuple(op[1:]) not in recorded:
                    users_untied = True
                recorded.discard(tuple(op[1:]))
            elif op[0] == "dmatchfn":
                dm_on, users_untied = True, False  # registration drops every cache on both sides
            elif op[0] == "clear":
                recorded, users_untied = set(), False
            if a == "bad-op":
                raise common.Infra(f"driver rm answered bad-op on {op!r}")
            model, spec = parse_ms(a)
            model, spec = canon(model), canon(spec)
            if h.get("nospec"):
                spec = "?"
            out["evals"] += 1
            cnt("op:" + op[0])
            if im.startswith("!"):
                cnt("error:" + im.split(":")[0])
            if op[0] in ("has", "g"):
                cnt("answer:" + im[:1])
                if im == "T" and op[1] != op[2] if op[0] == "has" else im == "T":
                    out["nontrivial"].add(hash((h["kind"], h["L"], repr(h["ops"][: i + 1]))))
            if users_untied and op[0] == "users" and im != model:
                cnt("users-after-unrecorded-delete-under-domain-function:not-tied")
            elif im != model and len(out["dis"]) < 20:
                out["dis"].append({"what": f"{h['kind']} manager, op {op!r}: implementation {im} vs Lean model {model}", "history": h, "step": i, "impl": im, "model": model})
            elif im != model:
                out["dis"].append(None)
            if spec != "?" and model != spec and h.get("scope", "in") == "in" and len(out["mvs"]) < 5:  # a theorem only inside its hypotheses
                out["mvs"].append({"history": h, "step": i, "model": model, "spec": spec})
            if spec != "?" and im != spec and first_bad is None:
                first_bad = (i, im, spec)
        if first_bad is not None:
            i, im, spec = first_bad
            out["viol"].append({"history": dict(h, ops=h["ops"][: i + 1]), "step": i, "observed": im, "expected": spec})
    out["nontrivial"] = list(out["nontrivial"])
    return out


def violates(h):
    """(still violates at the last op?, observed, expected) — used by shrinking and replay"""
    ans = run_driver("rm", lean_lines(h))
    impl = impl_run(h)
    _, spec = parse_ms(ans[-1])
    spec = canon(spec)
    return (spec != "?" and impl[-1] != spec), impl[-1], spec


def shrink(h, budget=150):
    """greedy removal of ops before the failing (last) one"""
    ops = list(h["ops"])
    i = 0
    while i < len(ops) - 1 and budget > 0:
        cand = ops[:i] + ops[i + 1 :]
        budget -= 1
        try:
            bad, _, _ = violates(dict(h, ops=cand))
        except common.Infra:
            bad = False
        if bad:
            ops = cand
        else:
            i += 1
    return dict(h, ops=ops)


def signature(prop, h, op):
    if h.get("scope", "in") != "in":
        return f"{prop}:{h['scope']}"
    return f"{prop}:{h['kind']}:{h['stream']}:{op[0]}"


def describe(h, observed, expected):
    op = h["ops"][-1]
    return (
        f"{h['kind']} manager (max_hierarchy_level={h['L']}): after {len(h['ops']) - 1} operation(s) {op[0]}{tuple(op[1:])} answered "
        f"{show(observed)}; path semantics over the assignments in force gives {show(expected)}"
    )


def show(a):
    if a in ("T", "F", "ok", "?") or a.startswith("!"):
        return {"T": "True", "F": "False"}.get(a, a)
    return "[" + ", ".join(common.dec_str(x) for x in common.dec_list(a)) + "]"


def run_all(ctx, res, prop, histories, workers=12, chunk=400):
    chunks = [histories[i : i + chunk] for i in range(0, len(histories), chunk)]
    if len(chunks) <= 2 or workers <= 1:
        outs = [run_chunk(c) for c in chunks]
    else:
        with multiprocessing.get_context("fork").Pool(workers) as pool:
            outs = pool.map(run_chunk, chunks, chunksize=1)
    for o in outs:
        res.evaluations += o["evals"]
        res.traces_validated += o["traces"]
        for k, v in o["dist"].items():
            res.count(k, v)
        res.nontrivial.update(o["nontrivial"])
        for d in o["dis"]:
            res.disagree(d if d is not None else {"what": "(further disagreement)"})
        res.model_vs_spec += o["mvs"]
        for v in o["viol"]:
            h = v["history"]
            if res._per_sig.get(signature(prop, h, h["ops"][-1]), 0) < 3:
                obs, exp = v["observed"], v["expected"]
                try:
                    h2 = shrink(h)
                    bad, obs2, exp2 = violates(h2)
                    if bad:  # (a nondeterministic failure may not survive shrinking: keep the original then)
                        h, obs, exp = h2, obs2, exp2
                except common.Infra:
                    pass
            else:
                obs, exp = v["observed"], v["expected"]
            res.violation(
                {
                    "signature": signature(prop, h, h["ops"][-1]),
                    "what": describe(h, obs, exp),
                    "history": h,
                    "observed": obs,
                    "expected": exp,
                    "replay_kind": "rm",
                }
            )
    return res


def replay(obj):
    h = obj["history"]
    impl = impl_run(h)
    return impl[-1] != obj["expected"]
