"""Deterministic controlled scheduler for real threads (C16, C17).

Real `threading.Thread`s run the real code, but only one at a time: every thread owns a gate semaphore and runs only
while it holds the baton handed to it by `Sched.step(tid)`; it hands the baton back at the next *scheduling point*
(`Sched.yield_`).  Scheduling points are inside the cooperative replacements `FakeRLock` / `FakeCondition`, which are
substituted for `RLock` / `Condition` in the module globals of `casbin.util.rwlock` (the module does
`from threading import RLock, Condition`) -- no hook in the repository -- and wherever the harness' own worker code
calls `yield_`.  A schedule (list of thread ids) therefore replays exactly.

Thread states (first component = kind):
  ('idle',)          before a round / call               runnable
  ('want', lock)     at `with self._lock:`               runnable iff the lock is free
  ('sleep', cond)    inside `cond.wait()`, lock released not runnable until notified
  ('woken', cond)    notified, must re-take the lock     runnable iff the lock is free
  ('in', ...)        harness-defined point (inside a section / inside a wrapped call)   runnable
  ('done',) ('crashed', repr) ('aborted',)
"""
import threading


class Abort(BaseException):
    """raised inside a scheduled thread to unwind it when an execution is abandoned"""


class SchedError(Exception):
    pass


class Ctl:
    __slots__ = ("tid", "gate", "state", "thread", "exc", "info")

    def __init__(self, tid):
        self.tid = tid
        self.gate = threading.Semaphore(0)
        self.state = ("idle",)
        self.thread = None
        self.exc = None
        self.info = {}


class Sched:
    def __init__(self, timeout=20.0):
        self.main = threading.Semaphore(0)
        self.ctl = {}
        self.by_ident = {}
        self.aborting = False
        self.timeout = timeout
        self.order = []
        self.yield_after_release = False  # finer granularity: one more scheduling point right after a mutex was released

    # ---- called from the controlling (main) thread
    def spawn(self, tid, fn, *args):
        c = Ctl(tid)
        self.ctl[tid] = c
        self.order.append(tid)

        def body():
            self.by_ident[threading.get_ident()] = tid
            c.gate.acquire()
            if self.aborting:
                c.state = ("aborted",)
                return
            try:
                fn(*args)
                c.state = ("done",)
            except Abort:
                c.state = ("aborted",)
                return
            except BaseException as e:  # noqa
                c.exc = e
                c.state = ("crashed", f"{type(e).__name__}: {e}")
            self.main.release()

        c.thread = threading.Thread(target=body, daemon=True)
        c.thread.start()
        return c

    def runnable(self, tid):
        st = self.ctl[tid].state
        k = st[0]
        if k in ("idle", "in", "released"):
            return True
        if k in ("want", "woken"):
            lock = st[1] if k == "want" else st[1]._lock
            return lock._owner is None
        return False

    def runnable_set(self):
        return [t for t in self.order if self.runnable(t)]

    def all_done(self):
        return all(self.ctl[t].state[0] in ("done", "crashed") for t in self.order)

    def step(self, tid):
        c = self.ctl[tid]
        if not self.runnable(tid):
            raise SchedError(f"thread {tid} is not runnable in state {c.state[0]}")
        c.gate.release()
        if not self.main.acquire(timeout=self.timeout):
            raise SchedError(f"thread {tid} did not reach a scheduling point within {self.timeout}s")
        return c.state

    def abort(self):
        """abandon the execution: unwind every unfinished thread"""
        self.aborting = True
        for t in self.order:
            c = self.ctl[t]
            if c.state[0] not in ("done", "crashed", "aborted"):
                c.gate.release()
        for t in self.order:
            self.ctl[t].thread.join(timeout=self.timeout)

    # ---- called from scheduled threads
    def me(self):
        return self.by_ident.get(threading.get_ident())

    def yield_(self, state):
        tid = self.me()
        if tid is None:
            return
        c = self.ctl[tid]
        if self.aborting:  # unwinding (e.g. the release method run by a `with` exit): never wait for the baton again
            raise Abort()
        c.state = state
        self.main.release()
        c.gate.acquire()
        if self.aborting:
            raise Abort()


_current = [None]  # the Sched the fakes created from now on belong to


def set_current(s):
    _current[0] = s


class FakeRLock:
    """cooperative re-entrant mutex; scheduling point before every (non re-entrant) acquisition"""

    def __init__(self):
        self._sched = _current[0]
        self._owner = None
        self._count = 0

    def _me(self):
        s = self._sched
        tid = s.me() if s is not None else None
        return ("t", tid) if tid is not None else ("ext", threading.get_ident())

    def acquire(self, blocking=True, timeout=-1):
        me = self._me()
        if self._owner == me:
            self._count += 1
            return True
        if me[0] == "ext":
            if self._owner is not None:
                raise SchedError("unscheduled thread would block on a FakeRLock")
        else:
            self._sched.yield_(("want", self))
            while self._owner is not None:  # the scheduler only resumes us when free; defensive
                self._sched.yield_(("want", self))
        self._owner = me
        self._count = 1
        return True

    def release(self):
        if self._owner != self._me():
            if self._sched is not None and self._sched.aborting:
                return
            raise RuntimeError("cannot release un-acquired lock")
        self._count -= 1
        if self._count == 0:
            self._owner = None
            if self._sched is not None and self._sched.yield_after_release and not self._sched.aborting and self._me()[0] == "t":
                self._sched.yield_(("released", self))

    __enter__ = acquire

    def __exit__(self, *a):
        self.release()
        return False


class FakeCondition:
    def __init__(self, lock=None):
        self._lock = lock if lock is not None else FakeRLock()
        self._sched = self._lock._sched
        self._waiters = []
        self.acquire = self._lock.acquire
        self.release = self._lock.release

    def __enter__(self):
        return self._lock.__enter__()

    def __exit__(self, *a):
        return self._lock.__exit__(*a)

    def wait(self, timeout=None):
        lock = self._lock
        me = lock._me()
        if lock._owner != me:
            raise RuntimeError("cannot wait on un-acquired lock")
        if me[0] == "ext":
            raise SchedError("unscheduled thread would block in Condition.wait")
        saved = lock._count
        lock._count = 0
        lock._owner = None
        self._waiters.append(me[1])
        self._sched.yield_(("sleep", self))  # resumed only after a notify, when the lock is free
        while lock._owner is not None:
            self._sched.yield_(("woken", self))
        lock._owner = me
        lock._count = saved
        return True

    def wait_for(self, predicate, timeout=None):
        r = predicate()
        while not r:
            self.wait()
            r = predicate()
        return r

    def notify(self, n=1):
        if self._lock._owner != self._lock._me():
            raise RuntimeError("cannot notify on un-acquired lock")
        # the documentation does not say WHICH waiters a plain notify() wakes: be adversarial and take the most recent
        # ones (notify_all is unaffected)
        k = len(self._waiters) - n if n < len(self._waiters) else 0
        for tid in self._waiters[k:]:
            self._sched.ctl[tid].state = ("woken", self)
        del self._waiters[k:]

    def notify_all(self):
        self.notify(len(self._waiters))

    notifyAll = notify_all


def install(casbin_rwlock_module, sched):
    """substitute the fakes into casbin.util.rwlock; returns the undo function"""
    set_current(sched)
    old = (casbin_rwlock_module.RLock, casbin_rwlock_module.Condition)
    casbin_rwlock_module.RLock = FakeRLock
    casbin_rwlock_module.Condition = FakeCondition

    def undo():
        casbin_rwlock_module.RLock, casbin_rwlock_module.Condition = old
        set_current(None)

    return undo


class FakeLock(FakeRLock):
    """cooperative NON re-entrant mutex: a second acquisition by the owner blocks for ever (reported as a dead execution)"""

    def acquire(self, blocking=True, timeout=-1):
        me = self._me()
        if self._owner == me and me[0] == "t":
            self._sched.yield_(("stuck", self))
            raise SchedError("a thread blocked on a Lock it holds was resumed")
        return FakeRLock.acquire(self, blocking, timeout)

    __enter__ = acquire


class _ThreadingProxy:
    """stands for the `threading` module inside one module's globals: the lock constructors give the cooperative fakes"""

    def __init__(self, real):
        self._real = real
        self.RLock = FakeRLock
        self.Lock = FakeLock
        self.Condition = FakeCondition

    def __getattr__(self, name):
        return getattr(self._real, name)


def install_locks(module):
    """substitute the fakes for whatever lock constructors `module` has in its globals (`from threading import RLock, Lock,
    Condition` and/or `import threading`); a module without any is left alone. Returns the undo function. The fakes
    belong to the scheduler that is current (set_current) when they are CREATED."""
    import threading as _threading

    saved = {}
    for name, fake in (("RLock", FakeRLock), ("Lock", FakeLock), ("Condition", FakeCondition)):
        if name in vars(module) and getattr(module, name) is getattr(_threading, name):
            saved[name] = getattr(module, name)
            setattr(module, name, fake)
    if vars(module).get("threading") is _threading:
        saved["threading"] = _threading
        module.threading = _ThreadingProxy(_threading)

    def undo():
        for name, v in saved.items():
            setattr(module, name, v)

    return undo
