"""Correspondence of Model/Effect.lean (`enforceEx`) with CoreEnforcer.enforce_ex / enforce / batch_enforce and
evaluation of the C01 / C08 specification on the real code.  Shared by props/c01.py and props/c08.py."""
import itertools

import common
from common import enc_bool, enc_list, enc_rules, enc_str, parse_ms, run_driver

KINDS = {
    "ao": "some(where (p_eft == allow))",
    "do": "!some(where (p_eft == deny))",
    "ad": "some(where (p_eft == allow)) && !some(where (p_eft == deny))",
    "pr": "priority(p_eft) || deny",
    "sp": "subjectPriority(p_eft) || deny",
}
LEAN_KIND = {"ao": "ao", "do": "do", "ad": "ad", "pr": "pr", "sp": "pr"}

VALUE_TABLE = {"T": True, "F": False, "f1": 1.0, "f0": 0.0, "i1": 1, "i0": 0, "s": "x", "se": "", "none": None}


def synth_f(rk, pk):
    sel = rk if pk == "" else pk
    if sel in VALUE_TABLE:
        return VALUE_TABLE[sel]
    return rk == pk


def model_text(kind, eftcol, has_eval):
    p = "k, tag, eft" if eftcol else "k, tag"
    m = "eval(p.tag) && f(r.k, p.k)" if has_eval else "f(r.k, p.k)"
    return f"""[request_definition]
r = k
[policy_definition]
p = {p}
[policy_effect]
e = {KINDS[kind]}
[matchers]
m = {m}
"""


_ENF = {}


def get_enforcer(kind, eftcol, has_eval):
    key = (kind, eftcol, has_eval)
    if key not in _ENF:
        casbin = common.use_repo()
        m = casbin.Enforcer.new_model(text=model_text(kind, eftcol, has_eval))
        e = casbin.Enforcer(m)
        e.add_function("f", synth_f)
        _ENF[key] = e
    return _ENF[key]


ERRS = {
    "invalid request size": "!invalidRequestSize",
    "invalid policy size": "!invalidPolicySize",
    "matcher result should be bool, int or float": "!matcherResultType",
    "please make sure rule exists in policy when using eval() in matcher": "!evalOnEmptyPolicy",
    "effect can't be converted to boolean": "!effectToBool",
}


def impl_run(case):
    """returns (enforce_ex result string, enforce result string, batch_enforce string)"""
    e = get_enforcer(case["kind"], case["eftcol"], case["has_eval"])
    e.enable_enforce(case["enabled"])
    policy = [list(r) for r in case["rules"]]
    e.model.model["p"]["p"].policy = policy

    def fmt_exc(ex):
        if isinstance(ex, RuntimeError) and str(ex) in ERRS:
            return ERRS[str(ex)]
        return f"!other:{type(ex).__name__}:{str(ex)[:60]}"

    try:
        r = e.enforce_ex(*case["req"])
        dec, expl = r[0], r[1]
        if not isinstance(dec, bool):
            ex_s = f"!nonbool:{dec!r}"
        elif expl == [] or expl is None:
            ex_s = enc_bool(dec) + ",-"
        else:
            idx = [i for i, rule in enumerate(policy) if rule is expl]
            if len(idx) == 1:
                ex_s = enc_bool(dec) + "," + str(idx[0])
            else:
                # not the stored object: fall back to equality (first equal rule) and mark it
                eq = [i for i, rule in enumerate(policy) if rule == list(expl)]
                ex_s = enc_bool(dec) + "," + (str(eq[0]) if eq else "notinpolicy")
    except Exception as ex:  # noqa
        ex_s = fmt_exc(ex)
    try:
        d = e.enforce(*case["req"])
        en_s = enc_bool(d) if isinstance(d, bool) else f"!nonbool:{d!r}"
    except Exception as ex:  # noqa
        en_s = fmt_exc(ex)
    try:
        b = e.batch_enforce([case["req"], case["req"]])
        ba_s = ",".join(enc_bool(x) for x in b)
    except Exception as ex:  # noqa
        ba_s = fmt_exc(ex)
    e.enable_enforce(True)
    return ex_s, en_s, ba_s


def lean_line(case):
    parity = 3 if case["eftcol"] else 2
    return "\t".join(
        [
            "ex",
            LEAN_KIND[case["kind"]],
            enc_bool(case["enabled"]),
            "1",
            str(parity),
            "2" if case["eftcol"] else "-",
            enc_bool(case["has_eval"]),
            enc_list([enc_str(x) for x in case["req"]]),
            enc_rules(case["rules"]),
        ]
    )


BASIC = [("k", "allow"), ("k", "deny"), ("k", "maybe"), ("x", "allow")]


def gen_exhaustive(maxlen):
    """every sequence of the four outcome kinds up to maxlen, for the five expressions, with and without effect column"""
    for kind in KINDS:
        for n in range(0, maxlen + 1):
            for seq in itertools.product(range(4), repeat=n):
                rules = [[BASIC[o][0], str(i), BASIC[o][1]] for i, o in enumerate(seq)]
                yield dict(kind=kind, eftcol=True, has_eval=False, enabled=True, req=["k"], rules=rules, stream="exh")
        for n in range(0, min(maxlen, 6) + 1):
            for seq in itertools.product(range(2), repeat=n):
                rules = [[("k", "x")[o], str(i)] for i, o in enumerate(seq)]
                yield dict(kind=kind, eftcol=False, has_eval=False, enabled=True, req=["k"], rules=rules, stream="exh-noeft")


PK = ["k", "x", "T", "F", "f1", "f0", "i1", "i0", "s", "se", "none", ""]
EFT = ["allow", "deny", "maybe", "", "Allow"]
RK = ["k", "x", "T", "F", "", "f1", "f0", "i1", "none", "s"]


def gen_random(rng, n):
    for _ in range(n):
        kind = rng.choice(list(KINDS))
        eftcol = rng.random() < 0.7
        has_eval = rng.random() < 0.15
        length = rng.choice([0, 0, 1, 2, 3, 4, 5, 6, 8, 12])
        rules = []
        weights = rng.choice([[8, 8, 1, 1, 1, 1, 0, 0, 0, 0, 0, 1], [4, 4, 2, 2, 2, 2, 1, 1, 1, 1, 1, 1]])
        for i in range(length):
            pk = rng.choices(PK, weights)[0]
            tag = "True" if has_eval else str(i)
            rule = [pk, tag] + ([rng.choice(EFT)] if eftcol else [])
            r = rng.random()
            if r < 0.03:
                rule = rule[:-1]
            elif r < 0.06:
                rule = rule + ["extra"]
            rules.append(rule)
        r = rng.random()
        if r < 0.06:
            req = []
        elif r < 0.12:
            req = [rng.choice(RK), "second"]
        else:
            req = [rng.choice(RK)]
        yield dict(kind=kind, eftcol=eftcol, has_eval=has_eval, enabled=rng.random() > 0.08, req=req, rules=rules, stream="rnd")


# ---------------------------------------------------------------- enforce contexts: two effect definitions in one enforcer


def ctx_model_text(k1, k2):
    return f"""[request_definition]
r = k
r2 = k
[policy_definition]
p = k, tag, eft
p2 = k, tag, eft
[policy_effect]
e = {KINDS[k1]}
e2 = {KINDS[k2]}
[matchers]
m = f(r.k, p.k)
m2 = f(r2.k, p2.k)
"""


_CTX_ENF = {}


def run_context_stream(ctx, res, want, maxlen):
    """the same enforcer answers plain requests (r, p, e, m) and context requests (r2, p2, e2, m2) in alternation: every
    answer must be the effect expression OF ITS OWN definition over its own policy, whatever was asked before"""
    casbin = common.use_repo()
    kinds = list(KINDS)
    seqs = [seq for n in range(0, maxlen + 1) for seq in itertools.product(range(4), repeat=n)]
    rng = ctx["rng"]
    jobs = []
    for k1 in kinds:
        for k2 in kinds:
            sample = seqs if len(seqs) <= 90 else rng.sample(seqs, 90)
            for seq in sample:
                # the two policies differ in length and content (p may be empty while p2 is not, and the other way round)
                half = seq[: len(seq) // 2] if (len(seq) + kinds.index(k1)) % 2 == 0 else seq
                rules1 = [[BASIC[o][0], str(i), BASIC[o][1]] for i, o in enumerate(half)]
                rules2 = [["x", "pre", "deny"]] * (len(seq) % 2) + [[BASIC[o][0], str(i), BASIC[o][1]] for i, o in enumerate(reversed(seq))]
                jobs.append((k1, k2, rules1, rules2))
    lines = []
    for k1, k2, r1, r2 in jobs:
        for kind, rules in ((k1, r1), (k2, r2)):
            lines.append(lean_line(dict(kind=kind, eftcol=True, has_eval=False, enabled=True, req=["k"], rules=rules)))
    answers = run_driver("effect", lines)
    for j, (k1, k2, r1, r2) in enumerate(jobs):
        key = (k1, k2)
        if key not in _CTX_ENF:
            m = casbin.Enforcer.new_model(text=ctx_model_text(k1, k2))
            e = casbin.Enforcer(m)
            e.add_function("f", synth_f)
            _CTX_ENF[key] = e
        e = _CTX_ENF[key]
        p1 = [list(r) for r in r1]
        p2 = [list(r) for r in r2]
        e.model.model["p"]["p"].policy = p1
        e.model.model["p"]["p2"].policy = p2
        c2 = e.new_enforce_context("2")
        spec1 = parse_ms(answers[2 * j])[1]
        spec2 = parse_ms(answers[2 * j + 1])[1]
        # plain, context, plain, context
        for step, (args, pol, spec, which) in enumerate([(("k",), p1, spec1, "plain"), ((c2, "k"), p2, spec2, "context"), (("k",), p1, spec1, "plain"), ((c2, "k"), p2, spec2, "context")]):
            try:
                r = e.enforce_ex(*args)
                dec, expl = r[0], r[1]
                idx = [i for i, rule in enumerate(pol) if rule is expl]
                got = enc_bool(dec) + "," + (str(idx[0]) if idx else ("-" if not expl else "notinpolicy"))
            except Exception as ex:  # noqa
                got = f"!other:{type(ex).__name__}:{str(ex)[:50]}"
            res.evaluations += 1
            res.count("stream:context")
            res.nontrivial.add(hash(("ctx", k1, k2, tuple(map(tuple, r1)), step)))
            exp = spec if want == "explain" else spec.split(",")[0]
            obs = got if want == "explain" else (got if got.startswith("!") else got.split(",")[0])
            if obs != exp:
                res.violation(
                    {
                        "signature": f"context:{which}:{k1}:{k2}",
                        "what": f"one enforcer with e = {KINDS[k1]!r} and e2 = {KINDS[k2]!r}: call #{step + 1} ({which} request) returned {got}; the effect expression of its own definition gives {spec}",
                        "case": {"k1": k1, "k2": k2, "rules1": r1, "rules2": r2, "step": step},
                        "model_text": ctx_model_text(k1, k2),
                        "expected": spec,
                        "observed": got,
                        "kind_of_case": "context",
                    }
                )
                break


# ---------------------------------------------------------------- eval() matchers under in-place policy edits

TRUE_TAG = "r.k == r.k"
FALSE_TAG = "r.k != r.k"


def _eval_script_run(kind, script):
    """execute a script of ('add', rule) / ('remove', rule) / ('update', old, new) / ('enforce',) on ONE enforcer;
    returns [(policy at that moment, enforce_ex answer)] for every 'enforce'"""
    casbin = common.use_repo()
    m = casbin.Enforcer.new_model(text=model_text(kind, True, True))
    e = casbin.Enforcer(m)
    e.add_function("f", synth_f)
    out = []
    for op in script:
        if op[0] == "add":
            e.add_policy(*op[1])
        elif op[0] == "remove":
            e.remove_policy(*op[1])
        elif op[0] == "update":
            e.update_policy(list(op[1]), list(op[2]))
        else:
            pol = [list(r) for r in e.get_policy()]
            try:
                r = e.enforce_ex("k")
                cur = e.model.model["p"]["p"].policy
                idx = [i for i, rule in enumerate(cur) if rule is r[1]]
                got = enc_bool(r[0]) + "," + (str(idx[0]) if idx else ("-" if not r[1] else "notinpolicy"))
            except Exception as ex:  # noqa
                got = f"!other:{type(ex).__name__}:{str(ex)[:50]}"
            out.append((pol, got))
    return out


def _eval_lean_rules(pol):
    # for the Lean side the stored expression is folded into the rule's first field: a false tag = no match
    return [[r[0] if r[1].startswith(TRUE_TAG) else "F", str(i), r[2]] for i, r in enumerate(pol)]


def run_eval_history_stream(ctx, res, want, n):
    """m = eval(p.tag) && f(r.k, p.k): the sub-expression stored in each rule is part of the matcher.  The policy is edited
    IN PLACE through the management API (remove a rule in the middle, update a rule's stored expression, add) between
    requests; every answer must be the effect expression over the CURRENT rules"""
    rng = ctx["rng"]
    lines, checks = [], []
    for _ in range(n):
        kind = rng.choice(list(KINDS))
        uid = [0]

        def fresh_rule():
            uid[0] += 1
            o = rng.randrange(4)
            # the tag must be unique per rule (rules are a set), so the stored expression carries a distinct literal
            tag = (TRUE_TAG if rng.random() < 0.6 else FALSE_TAG) + f" || {uid[0]} == 0"
            return [BASIC[o][0], tag, BASIC[o][1]]

        pol = [fresh_rule() for _ in range(rng.randint(2, 5))]
        script = [("add", r) for r in pol]
        for _ in range(rng.randint(2, 5)):
            script.append(("enforce",))
            choice = rng.random()
            if pol and choice < 0.4:
                r = pol.pop(rng.randrange(max(1, len(pol) - 1)))
                script.append(("remove", r))
            elif pol and choice < 0.7:
                k = rng.randrange(len(pol))
                old = pol[k]
                new = list(old)
                new[1] = (FALSE_TAG if old[1].startswith(TRUE_TAG) else TRUE_TAG) + old[1][len(TRUE_TAG) if old[1].startswith(TRUE_TAG) else len(FALSE_TAG):]
                pol[k] = new
                script.append(("update", old, new))
            else:
                r = fresh_rule()
                pol.append(r)
                script.append(("add", r))
        script.append(("enforce",))
        outs = _eval_script_run(kind, script)
        npos = [i for i, op in enumerate(script) if op[0] == "enforce"]
        for (p_now, got), pos in zip(outs, npos):
            if not p_now:
                continue
            lines.append(lean_line(dict(kind=kind, eftcol=True, has_eval=True, enabled=True, req=["k"], rules=_eval_lean_rules(p_now))))
            checks.append((kind, p_now, got, script[: pos + 1]))
    answers = run_driver("effect", lines)
    for (kind, pol, got, script), ans in zip(checks, answers):
        spec = parse_ms(ans)[1]
        res.evaluations += 1
        res.count("stream:eval-history")
        res.nontrivial.add(hash(("evalh", kind, repr(script))))
        exp = spec if want == "explain" else spec.split(",")[0]
        obs = got if want == "explain" else (got if got.startswith("!") else got.split(",")[0])
        if spec != "?" and obs != exp:
            res.violation(
                {
                    "signature": f"eval-history:{kind}",
                    "what": f"m = eval(p.tag) && f(r.k, p.k), effect {KINDS[kind]!r}, after in-place edits the policy is {pol}: enforce_ex('k') returned {got}; the effect expression over the current rules gives {spec}",
                    "case": {"kind": kind, "script": [list(o) for o in script]},
                    "model_text": model_text(kind, True, True),
                    "expected": spec,
                    "observed": got,
                    "kind_of_case": "eval-history",
                }
            )


class _Alike:
    """a request value that prints like a string key but is not equal to it"""

    def __init__(self, text):
        self.text = text

    def __repr__(self):
        return self.text

    __str__ = __repr__


def _batch_requests():
    return [["7"], [7], [_Alike("7")], ["8"], [8], [7.0], [True], ["True"], ["7"]]


def run_batch_stream(ctx, res, want):
    """batch_enforce decides every request of the batch on its own: requests that are different values but print alike
    (7 / '7' / an object printing 7), repeated requests, every rotation of the batch; the expected decisions are the
    single-request decisions (tied to the Lean model by the main stream)"""
    casbin = common.use_repo()
    reqs0 = _batch_requests()
    for kind in KINDS:
        m = casbin.Enforcer.new_model(text=model_text(kind, True, False))
        e = casbin.Enforcer(m)
        e.add_function("f", synth_f)
        for rules in ([["7", "t", "allow"], ["8", "t", "deny"]], [["7", "t", "deny"], ["True", "t", "allow"]], [["8", "t", "allow"]], []):
            e.model.model["p"]["p"].policy = [list(r) for r in rules]
            for rot in range(len(reqs0)):
                reqs = reqs0[rot:] + reqs0[:rot]
                try:
                    single = [e.enforce(*r) for r in reqs]
                    batch = e.batch_enforce([list(r) for r in reqs])
                except Exception as ex:  # noqa
                    single, batch = None, f"!{type(ex).__name__}"
                res.evaluations += 1
                res.count("stream:batch")
                if single is not None and any(single):
                    res.nontrivial.add(hash(("batch", kind, repr(rules), rot)))
                if batch != single:
                    res.violation({"signature": f"C01:batch:{kind}", "stream": "batch", "ekind": kind, "rules": rules, "rotation": rot,
                                   "what": f"effect {kind}, policy {rules}: batch_enforce({[repr(r[0]) for r in reqs]}) = {batch}; the requests decided one by one give {single}",
                                   "expected": single, "observed": batch})
                    break


def replay_batch(obj):
    casbin = common.use_repo()
    m = casbin.Enforcer.new_model(text=model_text(obj.get("ekind") or obj["kind"], True, False))
    e = casbin.Enforcer(m)
    e.add_function("f", synth_f)
    e.model.model["p"]["p"].policy = [list(r) for r in obj["rules"]]
    reqs0 = _batch_requests()
    reqs = reqs0[obj["rotation"] :] + reqs0[: obj["rotation"]]
    return e.batch_enforce([list(r) for r in reqs]) != [e.enforce(*r) for r in reqs]


FLAG_ENV_OPS = ("load_model", "load_policy", "set_model", "set_adapter", "clear+load", "set_watcher", "build_role_links", "enable_auto_save", "enable_log")


def _second_defs(text, kind2):
    """the same model with a second request / policy / effect / matcher definition (selected through an enforce context);
    the SECOND effect expression is `kind2`"""
    return (text.replace("r = k\n", "r = k\nr2 = k\n").replace("p = k, tag, eft\n", "p = k, tag, eft\np2 = k, tag, eft\n")
            .replace("[matchers]", "e2 = " + KINDS[kind2] + "\n[matchers]").replace("m = f(r.k, p.k)", "m = f(r.k, p.k)\nm2 = f(r2.k, p2.k)"))


def _flag_env_run(kind, script, ctx2=False):
    """an enforcer built from a model FILE and a list adapter; script = environment calls between which the enforcer is
    disabled / enabled; returns, per step, the decisions over a fixed request list. ctx2: the model has second definitions
    (r2, p2, e2, m2 - the same rules under p2) and the decisions are asked through EnforceContext("r2", "p2", "e2", "m2")"""
    import os
    import shutil
    import tempfile

    import policy_corr as pc

    casbin = common.use_repo()
    def mtext(k, a, b):
        # with second definitions the SECOND effect expression is the one under test, the first stays `ao`
        return _second_defs(model_text("ao", a, b), k) if ctx2 else model_text(k, a, b)
    d = tempfile.mkdtemp(prefix="c01e_")
    try:
        mp = os.path.join(d, "model.conf")
        open(mp, "w").write(mtext(kind, True, False))
        rules = [["k", "t", "deny"], ["x", "t", "allow"], ["k", "t", "allow"]]
        ad = pc.make_adapter(casbin, [("p", "p", r) for r in rules] + ([("p", "p2", r) for r in rules] if ctx2 else []))
        e = casbin.Enforcer(mp, ad)
        e.add_function("f", synth_f)
        e.enable_auto_save(False)
        reqs = [["k"], ["x"], ["zz"]]
        if ctx2:
            from casbin.core_enforcer import EnforceContext  # noqa

            reqs = [[EnforceContext("r2", "p2", "e2", "m2")] + r for r in reqs]
        outs = []
        for op in script:
            try:
                if op == "disable":
                    e.enable_enforce(False)
                elif op == "enable":
                    e.enable_enforce(True)
                elif op.startswith("set_model:"):
                    # another model (a different policy-effect expression) takes the place of the first one
                    open(mp, "w").write(mtext(op.split(":")[1], True, False))
                    e.set_model(casbin.Enforcer.new_model(mp))
                    e.add_function("f", synth_f)
                    e.load_policy()
                elif op.startswith("load_model:"):
                    # the model file has been rewritten with a different policy-effect expression and is reloaded
                    open(mp, "w").write(mtext(op.split(":")[1], True, False))
                    e.load_model()
                    e.add_function("f", synth_f)
                    e.load_policy()
                elif op == "load_model":
                    e.load_model()
                    e.add_function("f", synth_f)
                    e.load_policy()
                elif op == "load_policy":
                    e.load_policy()
                elif op == "set_model":
                    e.set_model(casbin.Enforcer.new_model(mp))
                    e.add_function("f", synth_f)
                    e.load_policy()
                elif op == "set_adapter":
                    e.set_adapter(pc.make_adapter(casbin, [("p", "p", r) for r in rules] + ([("p", "p2", r) for r in rules] if ctx2 else [])))
                    e.load_policy()
                elif op == "clear+load":
                    e.clear_policy()
                    e.load_policy()
                elif op == "set_watcher":
                    class _W:
                        def set_update_callback(self, f):
                            pass

                        def update(self):
                            pass

                    e.set_watcher(_W())
                elif op == "build_role_links":
                    e.build_role_links()
                elif op == "enable_auto_save":
                    e.enable_auto_save(True)
                    e.enable_auto_save(False)
                elif op == "enable_log":
                    e.enable_auto_notify_watcher(False)
                else:
                    raise common.Infra("unknown op " + op)
                ret = "ok"
            except common.Infra:
                raise
            except Exception as ex:  # noqa
                ret = "!" + type(ex).__name__
            decs = []
            for r in reqs:
                try:
                    decs.append(enc_bool(bool(e.enforce(*r))))
                except Exception as ex:  # noqa
                    decs.append("!" + type(ex).__name__)
            outs.append((ret, decs))
        return outs
    finally:
        shutil.rmtree(d, ignore_errors=True)


def run_flag_env_stream(ctx, res, want):
    """"a disabled enforcer allows everything" - also after the model, the policy, the adapter or the watcher have been
    reloaded / replaced while it was disabled; and once enabled again it decides as it did before"""
    rng = ctx["rng"]
    scripts = [["enable", "disable", op, "enable"] for op in FLAG_ENV_OPS]
    scripts += [["enable", "disable", a, b, "enable"] for a in FLAG_ENV_OPS[:5] for b in FLAG_ENV_OPS[:5]]
    kinds = [k for k in KINDS if k != "sp"]  # subject priority needs a role definition to LOAD a policy through an adapter (C07's subject)
    bases = {k: _flag_env_run(k, ["enable"])[0][1] for k in kinds}
    for kind in kinds:
        # the model replaced / reloaded with ANOTHER effect expression: from then on the new expression decides
        swaps = [["enable", f"{how}:{k2}"] for how in ("set_model", "load_model") for k2 in kinds if k2 != kind]
        swaps += [["enable", "disable", f"set_model:{k2}", "enable"] for k2 in kinds if k2 != kind][:2]
        for script in (scripts if ctx["deep"] else rng.sample(scripts, 12) + scripts[:3]) + swaps:
            outs = _flag_env_run(kind, script)
            base = outs[0][1]
            disabled = False
            if script in swaps[:2]:
                # the same swap on the SECOND effect definition, decided through an enforce context (after a first decision)
                outs2 = _flag_env_run(kind, script, ctx2=True)
                res.evaluations += len(outs2)
                res.count("stream:flag-env:second-definition", len(outs2))
                want2 = [outs[0][1], bases[script[1].split(":")[1]]]
                got2 = [o[1] for o in outs2]
                if [o[0] for o in outs2] != ["ok", "ok"] or got2 != want2:
                    res.violation({"signature": f"C01:flag-env:context:{script[1].split(':')[0]}", "stream": "flag-env", "ekind": kind, "script": script, "ctx2": True,
                                   "what": f"second effect definition e2 = {kind}, decided through EnforceContext(r2, p2, e2, m2): after {script} the decisions are {got2}, the expressions in force give {want2}",
                                   "expected": want2, "observed": got2})
                    break
            for i, (op, (ret, decs)) in enumerate(zip(script, outs)):
                if op == "disable":
                    disabled = True
                elif op == "enable":
                    disabled = False
                elif ":" in op:
                    base = bases[op.split(":")[1]]
                res.evaluations += 1
                res.count("stream:flag-env:" + ("disabled" if disabled else "enabled"))
                res.nontrivial.add(hash(("flag-env", kind, tuple(script[: i + 1]))))
                exp = ["T"] * len(decs) if disabled else base
                if ret != "ok" or decs != exp:
                    res.violation({"signature": f"C01:flag-env:{'disabled' if disabled else 'enabled'}:{op.split(':')[0]}", "stream": "flag-env", "ekind": kind, "script": script[: i + 1],
                                   "what": f"effect {kind}: after {script[: i + 1]} (last call: {ret}) the enforcer is {'DISABLED and must allow everything' if disabled else 'enabled and must decide as its current model says'}: decisions {decs}, expected {exp}",
                                   "expected": exp, "observed": decs})
                    break


def replay_flag_env(obj):
    if obj.get("ctx2"):
        return [o[1] for o in _flag_env_run(obj.get("ekind") or obj["kind"], obj["script"], ctx2=True)] != obj["expected"]
    outs = _flag_env_run(obj.get("ekind") or obj["kind"], obj["script"])
    return outs[-1][0] != "ok" or outs[-1][1] != obj["expected"]


def run(ctx, res, want):
    """want = 'decision' (C01) or 'explain' (C08): which part of the specification is judged"""
    # a broken proof/tie first gets the quick budget; the deep one only if that finds no failing input
    stages = [(6, 12000)] if not ctx["deep"] else ([(8, 60000)] if ctx["proof_ok"] else [(6, 12000), (8, 60000)])
    for maxlen, nrand in stages:
        _run_stage(ctx, res, want, maxlen, nrand)
        run_context_stream(ctx, res, want, 3 if maxlen <= 6 else 4)
        run_eval_history_stream(ctx, res, want, 400 if maxlen <= 6 else 3000)
        if want == "decision":
            run_batch_stream(ctx, res, want)
            run_flag_env_stream(ctx, res, want)
        if res.spec_violations:
            break
    return res


def _run_stage(ctx, res, want, maxlen, nrand):
    cases = list(gen_exhaustive(maxlen)) + list(gen_random(ctx["rng"], nrand))
    answers = run_driver("effect", [lean_line(c) for c in cases])
    res.rule = (
        "[plus the enforce-context stream: 25 pairs (e, e2) of effect expressions in ONE enforcer, plain and context requests alternating; the eval()-history stream; "
        "C01 only: batch_enforce with requests that print alike, and the flag-environment stream - model / policy / adapter / watcher reloaded or replaced while the "
        "enforcer is disabled (must allow everything) and models with ANOTHER effect expression swapped in by set_model / load_model (the new expression decides)] "
        f"every sequence of rule outcomes {{match+allow, match+deny, match+other, no match}} of length <= {maxlen} x 5 effect "
        f"expressions x with/without effect column through Enforcer.enforce_ex/enforce/batch_enforce and the Lean model "
        f"(exhaustive), plus {nrand} seeded random cases (matcher results bool/float/int/str/None, wrong-arity rules and "
        "requests, disabled enforcer, eval() matchers, empty policies); non-trivial = at least one rule matches; distinct by "
        "(expression, effect column, enabled, request, rules)"
    )
    res.exhaustive = True
    for c, ans in zip(cases, answers):
        model, spec = parse_ms(ans)
        ex_s, en_s, ba_s = impl_run(c)
        res.evaluations += 1
        res.count("stream:" + c["stream"])
        res.count("kind:" + c["kind"])
        res.count("len:" + str(min(len(c["rules"]), 9)))
        res.count("result:" + (ex_s if ex_s.startswith("!") else ex_s[0]))
        key = (c["kind"], c["eftcol"], c["enabled"], tuple(c["req"]), tuple(tuple(r) for r in c["rules"]))
        if "," in ex_s and not ex_s.endswith(",-") or any(r and r[0] in ("k", "T", "f1") for r in c["rules"]):
            res.nontrivial.add(hash(key))
        if res.evaluations % 9000 == 1:
            res.sample({"case": c, "enforce_ex": ex_s, "enforce": en_s, "model": model, "spec": spec})
        # --- the tie: implementation vs executable model (all three entry points)
        m_dec = model if model.startswith("!") else model.split(",")[0]
        m_batch = model if model.startswith("!") else m_dec + "," + m_dec
        if ex_s != model or en_s != m_dec or ba_s != m_batch:
            res.disagree({"what": "enforce_ex/enforce/batch_enforce vs Model.enforceEx", "case": c, "impl": [ex_s, en_s, ba_s], "model": model})
        # --- model vs spec is a theorem
        if spec != "?" and model != spec:
            res.model_vs_spec.append({"case": c, "model": model, "spec": spec})
        # --- the property on the real code
        if spec != "?":
            s_dec = spec if spec.startswith("!") else spec.split(",")[0]
            if want == "decision":
                if en_s != s_dec or (ex_s if ex_s.startswith("!") else ex_s.split(",")[0]) != s_dec or ba_s != (spec if spec.startswith("!") else s_dec + "," + s_dec):
                    res.violation(
                        {
                            "signature": f"decision:{c['kind']}",
                            "what": f"effect expression {KINDS[c['kind']]!r}: enforce returned {en_s} / enforce_ex {ex_s} / batch {ba_s}, the effect expression over the rule outcomes gives {spec}",
                            "case": c,
                            "model_text": model_text(c["kind"], c["eftcol"], c["has_eval"]),
                            "expected": spec,
                            "observed": [ex_s, en_s, ba_s],
                        }
                    )
            else:
                ex_dec = ex_s if ex_s.startswith("!") else ex_s.split(",")[0]
                if ex_s != spec or ex_dec != en_s:
                    res.violation(
                        {
                            "signature": f"explain:{c['kind']}",
                            "what": f"enforce_ex returned {ex_s} (decision,explain index) and enforce {en_s}; the earliest decisive matching rule gives {spec}",
                            "case": c,
                            "model_text": model_text(c["kind"], c["eftcol"], c["has_eval"]),
                            "expected": spec,
                            "observed": [ex_s, en_s],
                        }
                    )
    return res


def replay(obj, want):
    if obj.get("stream") == "batch":
        return replay_batch(obj)
    if obj.get("stream") == "flag-env":
        return replay_flag_env(obj)
    if obj.get("kind_of_case") == "eval-history":
        c = obj["case"]
        outs = _eval_script_run(c["kind"], [tuple(o) for o in c["script"]])
        got = outs[-1][1]
        exp = obj["expected"]
        return (got != exp) if want == "explain" else (got.split(",")[0] != exp.split(",")[0])
    if obj.get("kind_of_case") == "context":
        r = common.Result()
        c = obj["case"]
        casbin = common.use_repo()
        m = casbin.Enforcer.new_model(text=ctx_model_text(c["k1"], c["k2"]))
        e = casbin.Enforcer(m)
        e.add_function("f", synth_f)
        e.model.model["p"]["p"].policy = [list(x) for x in c["rules1"]]
        e.model.model["p"]["p2"].policy = [list(x) for x in c["rules2"]]
        c2 = e.new_enforce_context("2")
        outs = []
        for args in [("k",), (c2, "k"), ("k",), (c2, "k")][: c["step"] + 1]:
            try:
                outs.append(enc_bool(e.enforce_ex(*args)[0]))
            except Exception as ex:  # noqa
                outs.append("!" + type(ex).__name__)
        return outs[-1] != obj["expected"].split(",")[0]
    c = obj["case"]
    ans = run_driver("effect", [lean_line(c)])[0]
    _, spec = parse_ms(ans)
    ex_s, en_s, ba_s = impl_run(c)
    if spec == "?":
        return False
    s_dec = spec if spec.startswith("!") else spec.split(",")[0]
    if want == "decision":
        return en_s != s_dec
    return ex_s != spec or (ex_s if ex_s.startswith("!") else ex_s.split(",")[0]) != en_s
