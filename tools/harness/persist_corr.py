"""Shared plumbing of the C10 / C12 checks: codecs of the `persist` driver family, model texts, dumps of real
`Model` objects, temp-dir handling, chunked multiprocessing."""
import itertools
import multiprocessing
import os
import random
import shutil
import tempfile

import common
from common import enc_str, dec_str

# ---------------------------------------------------------------- codecs (see lean/CasbinV/Driver/Persist.lean)


def enc_rule(r):
    return "%" if not r else "|".join(enc_str(x) for x in r)


def dec_rule(s):
    return [] if s == "%" else [dec_str(x) for x in s.split("|")]


def enc_rules(rs):
    return "~" if not rs else ";".join(enc_rule(r) for r in rs)


def dec_rules(s):
    return [] if s == "~" else [dec_rule(x) for x in s.split(";")]


def enc_store(st):
    """st: list of (key, arity, rules)"""
    return "~" if not st else "&".join(f"{enc_str(k)}={a}={enc_rules(rs)}" for k, a, rs in st)


def dec_store(s):
    if s == "~":
        return []
    out = []
    for e in s.split("&"):
        k, a, rs = e.split("=")
        out.append((dec_str(k), int(a), dec_rules(rs)))
    return out


def enc_filter(f):
    """f: None or (P, G)"""
    return "N" if f is None else enc_rule(f[0]) + "^" + enc_rule(f[1])


def parse_msd(ans):
    """'model=X spec=Y dom=Z' -> (X, Y, Z == 'T'); dom = the hypotheses of the proved (partial) theorem hold"""
    import re

    m = re.match(r"^model=(.*?) spec=(.*?)(?: dom=([TF]))?$", ans)
    if not m:
        raise common.Infra(f"malformed driver answer: {ans!r}")
    return m.group(1), m.group(2), m.group(3) != "F"


def store_rules(st):
    return [(k, rs) for k, _, rs in st]


# ---------------------------------------------------------------- models

HEAD = "[request_definition]\nr = sub, obj, act\n[policy_definition]\n"
TAIL = "[policy_effect]\ne = some(where (p.eft == allow))\n[matchers]\nm = r.sub == p.sub && r.obj == p.obj && r.act == p.act\n"
TAIL_G = "[policy_effect]\ne = some(where (p.eft == allow))\n[matchers]\nm = g(r.sub, p.sub) && r.obj == p.obj && r.act == p.act\n"
TAIL_DOM = "[policy_effect]\ne = some(where (p.eft == allow))\n[matchers]\nm = g(r.sub, p.sub, r.obj) && r.obj == p.obj && r.act == p.act\n"

MODEL_TEXTS = {
    # several policy types
    "multi": HEAD + "p = sub, obj, act\np2 = sub, act\n[role_definition]\ng = _, _\ng2 = _, _, _\n" + TAIL_G,
    # no role definition at all (F08)
    "nog": HEAD + "p = sub, obj, act\n" + TAIL,
    "nog2": HEAD + "p = sub, obj, act\np2 = sub, act\n" + TAIL,
    "rbac": HEAD + "p = sub, obj, act\n[role_definition]\ng = _, _\n" + TAIL_G,
    "dom": HEAD + "p = sub, obj, act\n[role_definition]\ng = _, _, _\n" + TAIL_DOM,
    # the FIRST policy type has a priority field (the enforcer sorts it on load), the others have none and keep their order
    "priomulti": HEAD + "p = priority, sub, act\np2 = sub, act\np3 = sub, obj, act\n[role_definition]\ng = _, _\n" + TAIL_G,
}


def new_model(casbin, name):
    m = casbin.Enforcer.new_model(text=MODEL_TEXTS[name])
    return m


def dump_model(m):
    """the policy lists of every assertion of a real Model, in dict order: [(key, arity, rules)]"""
    out = []
    for sec, d in m.model.items():
        for key, ast in d.items():
            arity = ast.value.count("_") if sec == "g" else len(ast.tokens)
            out.append((key, arity, [list(r) for r in ast.policy]))
    return out


def set_policy(m, rules_by_key):
    """put rules into a real Model through Model.add_policy (keeps policy_map consistent)"""
    m.clear_policy()
    for key, rules in rules_by_key:
        for r in rules:
            m.add_policy(key[0], key, list(r))


# ---------------------------------------------------------------- temp dirs (outside /repo and /verif)


class TmpDir:
    def __enter__(self):
        self.d = tempfile.mkdtemp(prefix="casbinv_")
        assert not self.d.startswith(common.REPO) and not self.d.startswith(common.VERIF)
        self.n = 0
        return self

    def path(self):
        self.n += 1
        return os.path.join(self.d, f"f{self.n}.csv")

    def __exit__(self, *a):
        shutil.rmtree(self.d, ignore_errors=True)


def write_bytes(path, text):
    with open(path, "wb") as f:
        f.write(text.encode("utf-8"))


def read_text(path):
    with open(path, "rb") as f:
        return f.read().decode("utf-8")


# ---------------------------------------------------------------- multiprocessing

NPROC = min(16, os.cpu_count() or 4)


def pmap(fn, jobs):
    """run fn over jobs in worker processes (fork: the workers inherit sys.path / VERIF_REPO)"""
    if len(jobs) <= 1:
        return [fn(j) for j in jobs]
    ctx = multiprocessing.get_context("fork")
    with ctx.Pool(min(NPROC, len(jobs))) as pool:
        return pool.map(fn, jobs, chunksize=1)


class Part:
    """partial result of a worker, merged into common.Result by merge()"""

    def __init__(self):
        self.violations = []
        self.disagreements = []
        self.model_vs_spec = []
        self.evaluations = 0
        self.nontrivial = set()
        self.dist = {}
        self.samples = []
        self.n_viol = 0
        self.n_dis = 0

    def count(self, k, n=1):
        self.dist[k] = self.dist.get(k, 0) + n

    def violation(self, v):
        self.n_viol += 1
        sig = v.get("signature")
        if sum(1 for x in self.violations if x.get("signature") == sig) < 5:
            self.violations.append(v)

    def disagree(self, d):
        self.n_dis += 1
        if len(self.disagreements) < 10:
            self.disagreements.append(d)

    def mvs(self, d):
        if len(self.model_vs_spec) < 5:
            self.model_vs_spec.append(d)

    def sample(self, s):
        if len(self.samples) < 2:
            self.samples.append(s)


def merge(res, parts):
    import json

    # smallest witnesses first: main.py writes one replay per signature, the first it sees
    allv = sorted((v for p in parts for v in p.violations), key=lambda v: len(json.dumps(v, default=str)))
    for v in allv:
        res.violation(v)
    for p in parts:
        res.n_spec += p.n_viol - len(p.violations)
        for d in p.disagreements:
            res.disagree(d)
        res.n_corr += p.n_dis - len(p.disagreements)
        res.model_vs_spec += p.model_vs_spec
        res.evaluations += p.evaluations
        res.nontrivial |= p.nontrivial
        for k, n in p.dist.items():
            res.count(k, n)
        for s in p.samples:
            res.sample(s)


def new_violations(res, prop):
    """violations whose signature is not an open known finding of `prop`"""
    known = {sg for k in common.load_known() if k["property"] == prop and k.get("status") == "open" for sg in [k["signature"]] + k.get("signatures", [])}
    return [v for v in res.spec_violations if v.get("signature") not in known]


def all_strings(alphabet, maxlen, minlen=0):
    for n in range(minlen, maxlen + 1):
        for t in itertools.product(alphabet, repeat=n):
            yield "".join(t)
