"""Enforcer-level correspondence: real casbin.Enforcer (and AsyncEnforcer) vs Model/Enforcer.lean through the stateful
`enf` driver family, with a recording faithful adapter and recording watchers, plus the metamorphic oracles the
properties state directly on the implementation (fresh-enforcer oracle for C04, store mirror for C09, notification
discipline for C20, foreign-domain frame for C05).  Shared by props/c04.py, c05.py, c09.py, c11.py, c18.py, c20.py."""
import asyncio
import itertools
import multiprocessing as mp

import common
from common import enc_list, enc_rule, enc_rules, enc_str, parse_ms, run_driver

TEXT = {
    "rbac": """[request_definition]
r = sub, obj, act
[policy_definition]
p = sub, obj, act
[role_definition]
g = _, _
[policy_effect]
e = some(where (p.eft == allow))
[matchers]
m = g(r.sub, p.sub) && r.obj == p.obj && r.act == p.act
""",
    "dom": """[request_definition]
r = sub, dom, obj, act
[policy_definition]
p = sub, dom, obj, act
[role_definition]
g = _, _, _
[policy_effect]
e = some(where (p.eft == allow))
[matchers]
m = g(r.sub, p.sub, r.dom) && r.dom == p.dom && r.obj == p.obj && r.act == p.act
""",
    "res": """[request_definition]
r = sub, obj, act
[policy_definition]
p = sub, obj, act
[role_definition]
g = _, _
g2 = _, _
[policy_effect]
e = some(where (p.eft == allow))
[matchers]
m = g(r.sub, p.sub) && g2(r.obj, p.obj) && r.act == p.act
""",
}
# same semantics as "dom", but g() receives the RULE's domain (legal: the matcher requires r.dom == p.dom anyway)
TEXT["dom2"] = TEXT["dom"].replace("g(r.sub, p.sub, r.dom) && r.dom == p.dom", "g(r.sub, p.sub, p.dom) && r.dom == p.dom")
COUNTS = {"rbac": (2, 0), "dom": (3, 0), "res": (2, 2), "dom2": (3, 0)}

SUBS = ["alice", "bob", "admin"]
ROLES = ["admin", "root"]
OBJS = ["data1", "data2"]
ACTS = ["read"]
DOMS = ["d1", "d2"]


def universe(shape):
    """(p rules, g rules, g2 rules, requests, names for role queries)"""
    if shape == "rbac":
        P = [["admin", "data1", "read"], ["alice", "data2", "read"], ["root", "data2", "read"]]
        G = [["alice", "admin"], ["bob", "admin"], ["admin", "root"]]
        G2 = []
        R = [[s, o, "read"] for s in ["alice", "bob", "admin", "root"] for o in OBJS]
    elif shape == "dom":
        P = [["admin", "d1", "data1", "read"], ["admin", "d2", "data2", "read"], ["alice", "d2", "data1", "read"]]
        G = [["alice", "admin", "d1"], ["alice", "admin", "d2"], ["bob", "admin", "d2"]]
        G2 = []
        R = [[s, d, o, "read"] for s in ["alice", "bob", "admin"] for d in DOMS for o in OBJS]
    else:
        P = [["admin", "grp", "read"], ["alice", "data2", "read"]]
        G = [["alice", "admin"], ["bob", "admin"], ["admin", "root"]]
        G2 = [["data1", "grp"], ["data2", "grp"]]
        R = [[s, o, "read"] for s in ["alice", "bob", "admin"] for o in ["data1", "data2", "grp"]]
    return P, G, G2, R


# ------------------------------------------------------------------ recording adapter / watcher


def make_adapter(casbin, initial, fail_after=None, is_async=False):
    from casbin import persist

    bases = [persist.Adapter]
    try:
        from casbin.persist.batch_adapter import BatchAdapter
        from casbin.persist.update_adapter import UpdateAdapter

        bases = [BatchAdapter, UpdateAdapter]
    except Exception:  # noqa
        pass

    class Rec(*bases):
        def __init__(self):
            self.store = {k: [list(r) for r in v] for k, v in initial.items()}
            self.log = _ALog()
            self.fail_after = fail_after

        def load_policy(self, model):
            self.log.append("load_policy")
            n = 0
            for sec in ("p", "g", "g2"):
                ptype = sec
                s = sec[0]
                for r in self.store.get(sec, []):
                    if self.fail_after is not None and n >= self.fail_after:
                        raise IOError("adapter failure")
                    if s in model.model and ptype in model.model[s]:
                        model.model[s][ptype].policy.append(list(r))
                    n += 1
            if self.fail_after is not None and n >= self.fail_after and False:
                raise IOError("adapter failure")

        def save_policy(self, model):
            self.log.append("save_policy")
            for sec in ("p", "g", "g2"):
                s = sec[0]
                if s in model.model and sec in model.model[s]:
                    self.store[sec] = [list(r) for r in model.model[s][sec].policy]
            return True

        def _l(self, sec, ptype):
            return self.store.setdefault(ptype, [])

        def add_policy(self, sec, ptype, rule):
            self.log.append(f"add_policy/{ptype}/{enc_rule(rule)}")
            l = self._l(sec, ptype)
            if list(rule) not in l:
                l.append(list(rule))

        def add_policies(self, sec, ptype, rules):
            self.log.append(f"add_policies/{ptype}/{enc_rules(rules)}")
            l = self._l(sec, ptype)
            for rule in rules:
                if list(rule) not in l:
                    l.append(list(rule))

        def remove_policy(self, sec, ptype, rule):
            self.log.append(f"remove_policy/{ptype}/{enc_rule(rule)}")
            l = self._l(sec, ptype)
            l[:] = [x for x in l if x != list(rule)]

        def remove_policies(self, sec, ptype, rules):
            self.log.append(f"remove_policies/{ptype}/{enc_rules(rules)}")
            l = self._l(sec, ptype)
            rs = [list(r) for r in rules]
            l[:] = [x for x in l if x not in rs]

        def remove_filtered_policy(self, sec, ptype, field_index, *field_values):
            self.log.append(f"remove_filtered_policy/{ptype}/{field_index}/{enc_list([enc_str(v) for v in field_values])}")
            l = self._l(sec, ptype)

            def m(rule):
                return all(v == "" or (field_index + i < len(rule) and rule[field_index + i] == v) for i, v in enumerate(field_values))

            l[:] = [x for x in l if not m(x)]

        def update_policy(self, sec, ptype, old_rule, new_rule):
            self.log.append(f"update_policy/{ptype}/{enc_rule(old_rule)}/{enc_rule(new_rule)}")
            l = self._l(sec, ptype)
            l[:] = [list(new_rule) if x == list(old_rule) else x for x in l]

        def update_policies(self, sec, ptype, old_rules, new_rules):
            self.log.append(f"update_policies/{ptype}/{enc_rules(old_rules)}/{enc_rules(new_rules)}")
            l = self._l(sec, ptype)
            mp_ = {}
            for o, n in zip(old_rules, new_rules):
                mp_.setdefault(tuple(o), list(n))
            l[:] = [mp_.get(tuple(x), x) for x in l]

        def update_filtered_policies(self, sec, ptype, new_rules, field_index, *field_values):
            """faithful: replaces the rules its own store selects by the new ones (set semantics) and returns the selection"""
            if getattr(self, "uf_raises", None):
                self.log.append("update_filtered_policies/RAISES")
                raise self.uf_raises("this adapter cannot update by filter")
            self.log.append(f"update_filtered_policies/{ptype}/{enc_rules(new_rules)}/{field_index}/{enc_list([enc_str(v) for v in field_values])}")
            l = self._l(sec, ptype)
            old = [x for x in l if all(v == "" or x[field_index + i] == v for i, v in enumerate(field_values))]  # may raise IndexError
            rest = [x for x in l if x not in old]
            for r in new_rules:
                if list(r) not in rest:
                    rest.append(list(r))
            l[:] = rest
            return [list(x) for x in old]

    if is_async:
        # the async enforcer awaits its adapter
        class ARec(Rec):
            pass

        for name in ["load_policy", "save_policy", "add_policy", "add_policies", "remove_policy", "remove_policies", "remove_filtered_policy", "update_policy", "update_policies", "update_filtered_policies"]:
            sync_fn = getattr(Rec, name)

            def mk(fn):
                async def af(self, *a, **k):
                    return fn(self, *a, **k)

                return af

            setattr(ARec, name, mk(sync_fn))
        try:
            from casbin.persist.adapters.asyncio import AsyncAdapter

            ARec = type("ARec2", (ARec, AsyncAdapter), {})
        except Exception:  # noqa
            pass
        return ARec()
    return Rec()


class _ALog(list):
    """the adapter's call log; also feeds the shared event sequence (order between adapter calls and notifications)"""

    events = None

    def append(self, x):
        super().append(x)
        if self.events is not None:
            self.events.append("a:" + x)


class _WLog(list):
    """the watcher's call log; when `observe` is set, every notification also records what the adapter's store and the
    enforcer's memory hold at that very moment (the property: notified AFTER the in-memory and adapter changes)"""

    observe = None

    def __init__(self):
        super().__init__()
        self.snaps = []

    events = None
    forward = None  # the log of the watcher this one replaced (the harness keeps reading that one)
    stale = False  # the watcher of this log has been replaced: whatever still reaches it is marked

    def append(self, x):
        x = "STALE-WATCHER:" + x if self.stale else x
        if self.forward is not None:
            return self.forward.record(x)
        self.record(x)

    def record(self, x):
        super().append(x)
        if self.events is not None:
            self.events.append("w:" + x)
        if self.observe is not None:
            self.snaps.append(self.observe())


def make_watcher(kind, is_async=False, sync_callbacks=False, async_update=False):
    """kind: 'plain' | 'ex' | 'upd'; async_update: a fully asynchronous watcher - the generic update() is a coroutine
    function as well (the async enforcer has to await it like the operation-specific callbacks)"""
    log = _WLog()

    class W:
        def set_update_callback(self, f):
            pass

        def update(self):
            log.append("update")

        def close(self):
            pass

    part = None
    if kind.startswith("part:"):
        # a partially extended watcher: offers exactly the named operation-specific callbacks
        part = set(x for x in kind[5:].split(",") if x)
        kind = "ex"
    if kind == "ex":

        class W(W):  # noqa
            def update_for_add_policy(self, sec, ptype, *params):
                log.append(f"update_for_add_policy/{ptype}/{enc_rule(params[0]) if len(params) == 1 and isinstance(params[0], list) else 'ARGS' + repr(params)}")

            def update_for_remove_policy(self, sec, ptype, *params):
                log.append(f"update_for_remove_policy/{ptype}/{enc_rule(params[0]) if len(params) == 1 and isinstance(params[0], list) else 'ARGS' + repr(params)}")

            def update_for_remove_filtered_policy(self, sec, ptype, field_index, *field_values):
                if all(isinstance(v, str) for v in field_values):
                    log.append(f"update_for_remove_filtered_policy/{ptype}/{field_index}/{enc_list([enc_str(v) for v in field_values])}")
                else:  # not the operation's own arguments: record them as they came
                    log.append(f"update_for_remove_filtered_policy/{ptype}/{field_index}/ARGS{field_values!r}")

            def update_for_save_policy(self, model):
                log.append("update_for_save_policy")

            def update_for_add_policies(self, sec, ptype, *rules):
                log.append(f"update_for_add_policies/{ptype}/{enc_rules(rules[0]) if len(rules) == 1 else 'ARGS' + repr(rules)}")

            def update_for_remove_policies(self, sec, ptype, *rules):
                log.append(f"update_for_remove_policies/{ptype}/{enc_rules(rules[0]) if len(rules) == 1 else 'ARGS' + repr(rules)}")

    if kind == "upd" or part is not None:

        class W(W):  # noqa
            def update_for_update_policy(self, old_rule, new_rule):
                log.append(f"update_for_update_policy/{enc_rule(old_rule)}/{enc_rule(new_rule)}")

            def update_for_update_policies(self, old_rules, new_rules):
                log.append(f"update_for_update_policies/{enc_rules(old_rules)}/{enc_rules(new_rules)}")

    if part is not None:
        for name in [n for n in dir(W) if n.startswith("update_for_")]:
            if name[len("update_for_"):] not in part:
                setattr(W, name, None)  # not offered
    if is_async and not sync_callbacks:
        base = W

        class AW(base):
            pass

        # the async enforcer awaits the operation-specific callbacks when they are coroutine functions and calls
        # the generic update() synchronously
        for name in [n for n in dir(base) if (n.startswith("update_for_") or (async_update and n == "update")) and getattr(base, n) is not None]:
            fn = getattr(base, name)

            def mk(fn):
                async def af(self, *a, **k):
                    return fn(self, *a, **k)

                return af

            setattr(AW, name, mk(fn))
        w = AW()
    else:
        w = W()
    w.log = log
    return w


# ------------------------------------------------------------------ a configuration of one run


class Config:
    def __init__(self, shape, adapter=True, watcher=None, initial=None, is_async=False, text=None, matchfn=None, late=False):
        self.shape, self.adapter, self.watcher, self.is_async = shape, adapter, watcher, is_async
        self.listform = False  # single adds / removes pass the rule as one list argument instead of varargs
        self.sync_callbacks = False  # async enforcer with a watcher whose operation-specific callbacks are plain functions
        self.async_update = False  # async enforcer with a watcher whose generic update() is a coroutine function too
        self.noq = False  # True: no decision / role queries after the calls (histories whose link state is outside the modelled domain)
        self.late = late  # the enforcer is built without an adapter, its flags are set, then set_adapter + load_policy
        self.text = text or shape  # key into TEXT (a textual variant of the same model shape)
        self.matchfn = matchfn  # None | "regex": a role-name matching function registered on g (no domain matching function)
        P, G, G2, R = universe(shape)
        self.initial = initial if initial is not None else {"p": [], "g": [], "g2": []}
        self.requests = R

    def init_line(self):
        gc, g2c = COUNTS[self.shape]
        return "\t".join(
            ["init", self.shape, str(gc), str(g2c), "T" if self.adapter else "F", "T" if self.watcher else "F", "T" if self.watcher == "ex" else "F", "T" if self.watcher == "upd" else "F",
             enc_rules(self.initial.get("p", [])), enc_rules(self.initial.get("g", [])), enc_rules(self.initial.get("g2", []))]
        )

    def key(self):
        return (self.shape, self.text, self.matchfn, self.adapter, self.watcher, self.is_async, repr(self.initial), self.late, self.sync_callbacks, self.listform) + (("async_update",) if getattr(self, "async_update", False) else ())


def build_enforcer(cfg, fail_after=None):
    casbin = common.use_repo()
    ad = make_adapter(casbin, cfg.initial, is_async=cfg.is_async) if cfg.adapter else None
    if cfg.is_async:
        m = casbin.AsyncEnforcer.new_model(text=TEXT[cfg.text])
        if ad is not None and cfg.late:
            e = casbin.AsyncEnforcer(m)
            e.enable_auto_save(True)
            e.enable_auto_build_role_links(True)
            e.enable_auto_notify_watcher(True)
            e.set_adapter(ad)
        else:
            e = casbin.AsyncEnforcer(m, ad)
        if ad is not None:
            run_async(e.load_policy())
            ad.log.clear()
        else:
            for sec in ("p", "g", "g2"):
                for r in cfg.initial.get(sec, []):
                    e.model.model[sec[0]][sec].policy.append(list(r))
            e.build_role_links()
    else:
        m = casbin.Enforcer.new_model(text=TEXT[cfg.text])
        if ad is None:
            e = casbin.Enforcer(m)
            # no adapter: install the initial policy directly
            for sec in ("p", "g", "g2"):
                for r in cfg.initial.get(sec, []):
                    e.model.model[sec[0]][sec].policy.append(list(r))
            e.build_role_links()
        elif cfg.late:
            e = casbin.Enforcer(m)
            e.enable_auto_save(True)
            e.enable_auto_build_role_links(True)
            e.enable_auto_notify_watcher(True)
            e.set_adapter(ad)
            e.load_policy()
            ad.log.clear()
        else:
            e = casbin.Enforcer(m, ad)
            ad.log.clear()
    w = None
    if cfg.watcher:
        w = make_watcher(cfg.watcher, cfg.is_async, getattr(cfg, "sync_callbacks", False), getattr(cfg, "async_update", False))
        e.set_watcher(w)

        def observe():
            pol = {"p": [list(r) for r in e.get_policy()], "g": [list(r) for r in e.get_named_grouping_policy("g")]}
            pol["g2"] = [list(r) for r in e.get_named_grouping_policy("g2")] if cfg.shape == "res" else []
            return {"pol": pol, "store": {k: [list(r) for r in ad.store.get(k, [])] for k in ("p", "g", "g2")} if ad else None}

        w.log.observe = observe
    e._verif_text = cfg.text
    e._verif_listform = getattr(cfg, "listform", False)
    events = []
    if ad is not None:
        ad.log.events = events
    if w is not None:
        w.log.events = events
    e._verif_events = events
    if cfg.matchfn == "regex":
        from casbin.util import regex_match_func

        e.add_named_matching_func("g", regex_match_func)
    return e, ad, w


_LOOP = None


def run_async(coro):
    global _LOOP
    if _LOOP is None:
        _LOOP = asyncio.new_event_loop()
    return _LOOP.run_until_complete(coro)


# ------------------------------------------------------------------ ops

# op = (name, args...) ; lean lines and the impl call


def sec_ptype(sec):
    return sec[0], sec


def lean_lines(op):
    n = op[0]
    if n == "add":
        return ["\t".join(["op", "add", op[1], enc_rule(op[2])])]
    if n == "addmany":
        return ["\t".join(["op", "addmany", op[1], enc_rules(op[2])])]
    if n == "remove":
        return ["\t".join(["op", "remove", op[1], enc_rule(op[2])])]
    if n == "removemany":
        return ["\t".join(["op", "removemany", op[1], enc_rules(op[2])])]
    if n == "removefiltered":
        return ["\t".join(["op", "removefiltered", op[1], str(op[2]), enc_list([enc_str(v) for v in op[3]])])]
    if n == "update":
        return ["\t".join(["op", "update", enc_rule(op[1]), enc_rule(op[2])])]
    if n == "updatemany":
        return ["\t".join(["op", "updatemany", enc_rules(op[1]), enc_rules(op[2])])]
    if n == "updatefiltered":
        return ["\t".join(["op", "updatefiltered", enc_rules(op[1]), str(op[2]), enc_list([enc_str(v) for v in op[3]])])]
    if n == "removeread":
        return ["op\tremoveread\t" + op[1]]
    if n == "updateread":
        return ["op\tupdateread\t" + op[1]]
    if n == "clear":
        return ["op\tclear"]
    if n in ("loadmodel", "setmodel"):
        return ["op\tclear"]  # load_model invalidates the policy (and nothing else: flags, adapter and watcher stay)
    if n in ("build", "setrm"):
        return ["op\tbuild"]  # a swapped-in empty role manager followed by build_role_links = a rebuild
    if n == "save":
        return ["op\tsave"]
    if n == "load":
        return ["op\tload\t" + ("-" if op[1] is None else str(op[1]))]
    if n in ("autosave", "autobuild", "autonotify"):
        return [f"op\t{n}\t{'T' if op[1] else 'F'}"]
    if n in ("setwatcher", "swapwatcher"):
        return []  # set_watcher changes no flag and no policy: no model step
    if n == "setstore":
        return ["\t".join(["setstore", enc_rules(op[1].get("p", [])), enc_rules(op[1].get("g", [])), enc_rules(op[1].get("g2", []))])]
    # RBAC API wrappers = compositions of management calls
    if n == "add_role_for_user":
        return lean_lines(("add", "g", [op[1], op[2]] + list(op[3:])))
    if n == "delete_role_for_user":
        return lean_lines(("remove", "g", [op[1], op[2]]))
    if n == "delete_roles_for_user":
        return lean_lines(("removefiltered", "g", 0, [op[1]]))
    if n == "delete_user":
        return lean_lines(("removefiltered", "g", 0, [op[1]])) + lean_lines(("removefiltered", "p", 0, [op[1]]))
    if n == "delete_role":
        return lean_lines(("removefiltered", "g", 1, [op[1]])) + lean_lines(("removefiltered", "p", 0, [op[1]]))
    if n == "delete_permission":
        return lean_lines(("removefiltered", "p", 1, list(op[1])))
    if n == "add_permission_for_user":
        return lean_lines(("add", "p", [op[1]] + list(op[2])))
    if n == "delete_permission_for_user":
        return lean_lines(("remove", "p", [op[1]] + list(op[2])))
    if n == "delete_permissions_for_user":
        return lean_lines(("removefiltered", "p", 0, [op[1]]))
    if n == "delete_roles_for_user_in_domain":
        return lean_lines(("removefiltered", "g", 0, [op[1], op[2], op[3]]))
    raise ValueError(n)


def combine_model(op, rets):
    """result of a wrapper call from the model's answers of its parts"""
    if len(rets) == 1:
        r = rets[0]
        if op[0] in ("delete_roles_for_user", "delete_roles_for_user_in_domain"):
            return r
        return r
    # delete_user / delete_role: res1 or res2 (res1 is the list of removed grouping rules)
    r1, r2 = rets
    if r1.startswith("!"):
        return r1
    if r1.startswith("L") and r1 != "L~":
        return r1
    return r2


def impl_call(e, op, is_async):
    n = op[0]

    def call(name, *a):
        f = getattr(e, name)
        r = f(*a)
        if is_async and asyncio.iscoroutine(r):
            r = run_async(r)
        return r

    def cp(x):
        return [list(r) for r in x]

    G = len(op) > 1 and op[1] in ("g", "g2")
    if getattr(e, "_verif_listform", False) and n in ("add", "remove"):
        # the same calls with the rule passed as ONE list argument
        if op[1] == "p":
            return call("add_policy" if n == "add" else "remove_policy", list(op[2]))
        return call("add_named_grouping_policy" if n == "add" else "remove_named_grouping_policy", op[1], list(op[2]))
    if n == "add":
        if op[1] == "p":
            return call("add_policy", *op[2])
        return call("add_named_grouping_policy", op[1], *op[2])
    if n == "addmany":
        if op[1] == "p":
            return call("add_policies", cp(op[2]))
        return call("add_named_grouping_policies", op[1], cp(op[2]))
    if n == "remove":
        if op[1] == "p":
            return call("remove_policy", *op[2])
        return call("remove_named_grouping_policy", op[1], *op[2])
    if n == "removemany":
        if op[1] == "p":
            return call("remove_policies", cp(op[2]))
        return call("remove_named_grouping_policies", op[1], cp(op[2]))
    if n == "removefiltered":
        if op[1] == "p":
            return call("remove_filtered_policy", op[2], *op[3])
        return call("remove_filtered_named_grouping_policy", op[1], op[2], *op[3])
    if n == "update":
        return call("update_policy", list(op[1]), list(op[2]))
    if n == "updatemany":
        return call("update_policies", cp(op[1]), cp(op[2]))
    if n == "updatefiltered":
        return call("update_filtered_policies", cp(op[1]), op[2], *op[3])
    if n == "removeread":
        # the batch argument is the very object the read returned
        if op[1] == "p":
            return call("remove_policies", e.get_policy())
        return call("remove_named_grouping_policies", op[1], e.get_named_grouping_policy(op[1]))
    if n == "updateread":
        got = e.get_policy()
        return call("update_policies", got, [list(r[:-1]) + [r[-1] + op[1]] for r in got])
    if n == "clear":
        return call("clear_policy")
    if n == "build":
        return call("build_role_links")
    if n == "setmodel":
        # replace the model by a freshly parsed one of the same text: the policy is invalidated, everything else stays
        e.set_model(common.use_repo().Enforcer.new_model(text=TEXT[getattr(e, "_verif_text", None) or "rbac"]))
        for pt, rm in list(e.rm_map.items()):
            rm.clear()
            if pt in e.model.model.get("g", {}):
                e.model.model["g"][pt].rm = rm
        return None
    if n == "loadmodel":
        # reload the model from its CONF file: the policy is invalidated; everything else about the enforcer stays
        import os
        import tempfile

        fd, path = tempfile.mkstemp(prefix="enf_model_", suffix=".conf")
        with os.fdopen(fd, "w") as f:
            f.write(TEXT[getattr(e, "_verif_text", None) or "rbac"])
        try:
            e.model_path = path
            e.load_model()
            for pt, rm in list(e.rm_map.items()):
                rm.clear()
                if pt in e.model.model.get("g", {}):
                    e.model.model["g"][pt].rm = rm
        finally:
            os.unlink(path)
        return None
    if n == "setrm":
        # replace the role manager of every role definition by a new, empty one of the same class, then rebuild
        for pt, rm in list(e.rm_map.items()):
            e.set_named_role_manager(pt, type(rm)(10))
        return call("build_role_links")
    if n == "save":
        return call("save_policy")
    if n == "load":
        e.adapter.fail_after = op[1]
        try:
            return call("load_policy")
        finally:
            e.adapter.fail_after = None
    if n == "setwatcher":
        return e.set_watcher(e.watcher)  # re-attach the (same) watcher: must not change any flag
    if n == "swapwatcher":
        # replace the watcher by ANOTHER object of the same kind: from now on that one is notified, the old one never
        old = e.watcher
        new = make_watcher(op[1], op[2], op[3])
        new.log.forward = old.log.forward if old.log.forward is not None else old.log
        old.log.stale = True
        return e.set_watcher(new)
    if n == "setstore":
        e.adapter.store = {k: [list(r) for r in v] for k, v in op[1].items()}
        return None
    if n == "autosave":
        return call("enable_auto_save", op[1])
    if n == "autobuild":
        return call("enable_auto_build_role_links", op[1])
    if n == "autonotify":
        return call("enable_auto_notify_watcher", op[1])
    if n == "delete_permission":
        return call("delete_permission", *op[1])
    if n in ("add_permission_for_user", "delete_permission_for_user"):
        return call(n, op[1], *op[2])
    return call(n, *op[1:])


def res_str(r):
    if isinstance(r, bool):
        return "T" if r else "F"
    if isinstance(r, list):
        return "L" + enc_rules(r)
    if r is None:
        return "-"
    return f"!nonbool:{r!r}"


def exc_str(ex):
    if isinstance(ex, IndexError):
        return "!IndexError"
    if isinstance(ex, IOError) and str(ex) == "adapter failure":
        return "!adapterFailure"
    if "grouping policy elements do not meet role definition" in str(ex):
        return "!shortGroupingRule"
    if str(ex) == "invalid request size":
        return "!invalidRequestSize"
    return f"!other:{type(ex).__name__}:{str(ex)[:60]}"


# ------------------------------------------------------------------ queries


def query_set(cfg):
    """(lean line, impl fn) pairs over the small universe"""
    qs = []
    if getattr(cfg, "noq", False):
        return qs
    for req in cfg.requests:
        qs.append(("enforce", tuple(req)))
    names = ["alice", "bob", "admin", "root"]
    doms = DOMS if cfg.shape == "dom" else [None]
    for d in doms:
        for a in names:
            qs.append(("roles", "g", a, d))
            qs.append(("users", "g", a, d))
            for b in names:
                if a != b:
                    qs.append(("haslink", "g", a, b, d))
    if cfg.shape == "res":
        for a in ["data1", "data2", "grp"]:
            qs.append(("roles", "g2", a, None))
            for b in ["data1", "data2", "grp"]:
                if a != b:
                    qs.append(("haslink", "g2", a, b, None))
    return qs


def q_line(q):
    if q[0] == "enforce":
        return "\t".join(["q", "enforce", enc_list([enc_str(x) for x in q[1]])])
    d = "~" if q[-1] is None else enc_str(q[-1])
    if q[0] == "haslink":
        return "\t".join(["q", "haslink", q[1], enc_str(q[2]), enc_str(q[3]), d])
    return "\t".join(["q", q[0], q[1], enc_str(q[2]), d])


def q_impl(e, q, is_async=False):
    try:
        if q[0] == "enforce":
            r = e.enforce(*q[1])
            return "T" if r is True else ("F" if r is False else f"!nonbool:{r!r}")
        rm = e.get_named_role_manager(q[1]) if hasattr(e, "get_named_role_manager") else e.rm_map[q[1]]
        dom = () if q[-1] is None else (q[-1],)
        if q[0] == "haslink":
            return "T" if rm.has_link(q[2], q[3], *dom) else "F"
        if q[0] == "roles":
            return enc_list(sorted(enc_str(x) for x in set(rm.get_roles(q[2], *dom))))
        if q[0] == "users":
            return enc_list(sorted(enc_str(x) for x in set(rm.get_users(q[2], *dom))))
    except Exception as ex:  # noqa
        return exc_str(ex)
    raise ValueError(q)


def fresh_enforcer(cfg, e):
    """a freshly constructed enforcer holding e's current policy"""
    casbin = common.use_repo()
    cur = {"p": [list(r) for r in e.get_policy()], "g": [list(r) for r in e.get_named_grouping_policy("g")], "g2": []}
    if cfg.shape == "res":
        cur["g2"] = [list(r) for r in e.get_named_grouping_policy("g2")]
    m = casbin.Enforcer.new_model(text=TEXT[cfg.shape])
    ad = make_adapter(casbin, cur)
    return casbin.Enforcer(m, ad)


# ------------------------------------------------------------------ running a history


EXTRAS = {}  # name -> function(cfg, enforcer) -> JSON-able probe result, evaluated after every call


def run_history(cfg, hist, queries, fresh_oracle=True, extra=None):
    """returns per op: dict(ret, acalls, wcalls, pol, mirror, answers[list], fresh[list] or None)"""
    e, ad, w = build_enforcer(cfg)
    out = []
    for op in hist:
        a0 = len(ad.log) if ad else 0
        w0 = len(w.log) if w else 0
        ws0 = len(w.log.snaps) if w else 0
        ev0 = len(e._verif_events)
        try:
            ret = res_str(impl_call(e, op, cfg.is_async))
        except Exception as ex:  # noqa
            ret = exc_str(ex)
        rec = {"ret": ret}
        rec["acalls"] = list(ad.log[a0:]) if ad else []
        rec["wcalls"] = list(w.log[w0:]) if w else []
        rec["wsnaps"] = list(w.log.snaps[ws0:]) if w else []
        rec["events"] = list(e._verif_events[ev0:])
        pol = {"p": [list(r) for r in e.get_policy()], "g": [list(r) for r in e.get_named_grouping_policy("g")]}
        pol["g2"] = [list(r) for r in e.get_named_grouping_policy("g2")] if cfg.shape == "res" else []
        rec["pol"] = pol
        if ad:
            rec["mirror"] = all(sorted(map(tuple, ad.store.get(s, []))) == sorted(map(tuple, pol[s])) for s in ("p", "g", "g2"))
            rec["store"] = {s: [list(r) for r in ad.store.get(s, [])] for s in ("p", "g", "g2")}
        rec["answers"] = [q_impl(e, q) for q in queries]
        if extra:
            rec["extra"] = EXTRAS[extra](cfg, e)
        if fresh_oracle:
            try:
                f = fresh_enforcer(cfg, e)
                rec["fresh"] = [q_impl(f, q) for q in queries]
            except Exception as ex:  # noqa
                rec["fresh"] = None
                rec["fresh_error"] = exc_str(ex)
        out.append(rec)
    return out


def lean_history(cfg, hist, queries):
    """lines + for each op the (op line indices, obs index, query indices)"""
    lines = ["#reset", cfg.init_line()]
    idx = []
    for op in hist:
        ll = lean_lines(op)
        a = len(lines)
        lines.extend(ll)
        b = len(lines)
        lines.append("obs")
        c = len(lines)
        lines.extend(q_line(q) for q in queries)
        idx.append((a, b, c))
    return lines, idx


def _worker(args):
    cfg, hists, queries, fresh_oracle, extra = args
    return [run_history(cfg, h, queries, fresh_oracle, extra) for h in hists]


def parse_obs(s):
    d = {}
    for part in s.split(" "):
        k, v = part.split("=", 1)
        d[k] = v
    return d


def compare_history(res, cfg, hist, impl, answers, idx, queries, judge):
    """judge(res, cfg, hist, i, op, rec, model) adds property-specific violations; returns False to stop this history"""
    for i, (op, rec, (a, b, c)) in enumerate(zip(hist, impl, idx)):
        if answers[1] != "ok":
            raise common.Infra(f"driver init answered {answers[1]!r}")
        parts = answers[a:b]
        if any(p == "bad-op" for p in parts):
            raise common.Infra(f"driver answered bad-op for {op}")
        rets, acalls, wcalls, events = ([] if parts else ["-"]), [], [], []
        for p in parts:
            body = p[len("model="):]
            r, ac, wc, ev = body.split("#")
            rets.append(r)
            acalls += [] if ac == "~" else ac.split(",")
            wcalls += [] if wc == "~" else wc.split(",")
            events += [] if ev == "~" else ev.split(",")
        mret = combine_model(op, rets)
        obs = parse_obs(answers[b])
        qa = [parse_ms(x) for x in answers[c : c + len(queries)]]
        res.evaluations += 1
        res.count("op:" + op[0])
        res.count("ret:" + (rec["ret"] if rec["ret"] in ("T", "F", "-") or rec["ret"].startswith("!") else "list"))
        case = {"config": {"shape": cfg.shape, "text": cfg.text, "matchfn": cfg.matchfn, "adapter": cfg.adapter, "watcher": cfg.watcher, "async": cfg.is_async, "late": cfg.late, "sync_callbacks": cfg.sync_callbacks, "async_update": getattr(cfg, "async_update", False), "listform": cfg.listform, "initial": cfg.initial}, "history": [list(o) for o in hist[: i + 1]], "step": i}
        model = {"ret": mret, "acalls": acalls, "wcalls": wcalls, "events": events, "obs": obs, "answers": [m for m, _ in qa], "fresh": [s for _, s in qa]}
        # ---- the tie: implementation vs model
        diffs = []
        if rec["ret"] != mret:
            diffs.append(("ret", rec["ret"], mret))
        for s in ("p", "g", "g2"):
            if enc_rules(rec["pol"][s]) != obs[s]:
                diffs.append(("policy " + s, rec["pol"][s], obs[s]))
        if cfg.adapter and rec["acalls"] != acalls:
            diffs.append(("adapter calls", rec["acalls"], acalls))
        if cfg.watcher and rec["wcalls"] != wcalls:
            diffs.append(("notifications", rec["wcalls"], wcalls))
        if cfg.adapter and cfg.watcher and not diffs and rec["events"] != events and parts:
            diffs.append(("order of adapter calls and notifications", rec["events"], events))
        for q, ia, (ma, _) in zip(queries, rec["answers"], qa):
            if ia != ma:
                diffs.append((f"query {q}", ia, ma))
                break
        if diffs:
            res.disagree({"what": f"{cfg.shape}: {op[0]}: " + "; ".join(f"{d[0]}: impl {d[1]!r} vs model {d[2]!r}" for d in diffs[:3]), "case": case})
        # ---- model vs its own spec column (fresh answers) is judged by the property module
        rec["pre"] = impl[i - 1]["pol"] if i else {k: [list(r) for r in cfg.initial.get(k, [])] for k in ("p", "g", "g2")}
        ok = judge(res, cfg, hist, i, op, rec, model, case, queries)
        if ok is False or diffs:
            return


def run_configs(res, jobs, judge, fresh_oracle=True, procs=12, extra=None):
    """jobs: list of (cfg, hist). One driver batch, a process pool for the real code."""
    if not jobs:
        return
    lines = []
    metas = []
    qcache = {}
    for cfg, hist in jobs:
        qs = qcache.setdefault((cfg.shape, cfg.noq), query_set(cfg))
        ll, idx = lean_history(cfg, hist, qs)
        off = len(lines)
        lines.extend(ll)
        metas.append((off, len(lines), idx, qs))
    answers = run_driver("enf", lines)
    chunk = max(1, len(jobs) // (procs * 6))
    groups = []
    for i in range(0, len(jobs), chunk):
        part = jobs[i : i + chunk]
        groups.append([(cfg, [h], qcache[(cfg.shape, cfg.noq)], fresh_oracle, extra) for cfg, h in part])
    flat = [g for grp in groups for g in grp]
    if len(jobs) < 64:
        outs = [_worker(a) for a in flat]
    else:
        with mp.Pool(procs) as pool:
            outs = pool.map(_worker, flat, chunksize=max(1, len(flat) // (procs * 8)))
    for (cfg, hist), out, (off, end, idx, qs) in zip(jobs, outs, metas):
        ans = answers[off:end]
        compare_history(res, cfg, hist, out[0], ans, idx, qs, judge)
        res.nontrivial.add(hash((cfg.key(), repr(hist))))
    k = len(jobs) // 2
    res.sample({"config": {"shape": jobs[k][0].shape, "adapter": jobs[k][0].adapter, "watcher": jobs[k][0].watcher, "initial": jobs[k][0].initial}, "history": [list(o) for o in jobs[k][1][:6]]})


# ------------------------------------------------------------------ op alphabets


def op_alphabet(shape, level="full"):
    P, G, G2, R = universe(shape)
    ops = []
    for r in G:
        ops += [("add", "g", r), ("remove", "g", r)]
    for r in P[:2]:
        ops += [("add", "p", r), ("remove", "p", r)]
    gb = [[G[0], G[1]], [G[0], G[0]], [G[1], G[2]], [G[2]]]
    for b in gb:
        ops += [("addmany", "g", b), ("removemany", "g", b)]
    ops += [("addmany", "p", [P[0], P[1]]), ("removemany", "p", [P[0], P[1]])]
    ops += [("removefiltered", "g", 0, [G[0][0]]), ("removefiltered", "g", 1, [G[0][1]]), ("removefiltered", "g", 0, ["nobody"]), ("removefiltered", "p", 0, [P[0][0]])]
    # filters with leading / interior / trailing wildcards and a non-zero field index
    ops += [("removefiltered", "p", 0, ["", P[0][1]]), ("removefiltered", "p", 0, [P[0][0], "", P[0][-1]] if len(P[0]) == 3 else [P[0][0], "", P[0][2]]),
            ("removefiltered", "p", 1, [P[1][1], ""]), ("removefiltered", "g", 0, ["", G[0][1]]), ("removefiltered", "p", 0, ["", ""])]
    ops += [("removeread", "g"), ("removeread", "p")]
    # a grouping rule with fewer fields than the role definition: alone, and in a batch before / after a valid rule
    short = G[0][:-1]
    ops += [("add", "g", short), ("addmany", "g", [G[1], short]), ("addmany", "g", [short, G[2]])]
    # grouping rules LONGER than the role definition: they differ only beyond it, so they share one link
    lx, ly = G[0] + ["x"], G[0] + ["y"]
    ops += [("add", "g", lx), ("add", "g", ly), ("remove", "g", lx), ("remove", "g", ly), ("addmany", "g", [lx, ly]), ("removemany", "g", [lx, ly]), ("removemany", "g", [lx])]
    ops += [("delete_user", "alice"), ("delete_role", "admin"), ("delete_roles_for_user", "alice"), ("delete_role_for_user", "alice", "admin") if shape != "dom" else ("delete_roles_for_user_in_domain", "alice", "admin", "d1")]
    if shape != "dom":
        ops += [("add_role_for_user", "bob", "root")]
    else:
        ops += [("add_role_for_user_in_domain", "bob", "root", "d1")] if False else [("add", "g", ["bob", "root", "d1"])]
    if shape == "res":
        for r in G2:
            ops += [("add", "g2", r), ("remove", "g2", r)]
        ops += [("addmany", "g2", [G2[0], G2[1]]), ("removefiltered", "g2", 1, ["grp"]), ("removemany", "g2", [G2[0]]), ("removemany", "g2", [G2[0], G2[1]])]
        # a rule shorter than the SECOND role definition: alone and inside a batch
        ops += [("add", "g2", G2[0][:-1]), ("addmany", "g2", [G2[1], G2[0][:-1]])]
    if level == "full":
        ops += [("update", P[0], P[2 if len(P) > 2 else 1]), ("update", P[0], P[0][:-1] + ["write"]), ("updatemany", [P[0]], [P[0][:-1] + ["write"]])]
        ops += [("clear",), ("build",), ("load", None), ("save",), ("updateread", "x")]
        ops += updatefiltered_ops(shape)
    return ops


def updatefiltered_kind(pre_p, op):
    """which situation an update_filtered_policies call is in, given the p rules before it"""
    news, idx, vals = [list(r) for r in op[1]], op[2], op[3]

    def m(rule):
        return all(v == "" or (idx + i < len(rule) and rule[idx + i] == v) for i, v in enumerate(vals))

    sel = [r for r in pre_p if m(r)]
    rest = [r for r in pre_p if not m(r)]
    if not sel:
        return "nothing-selected"
    if not news:
        return "no-new-rules"
    if any(n in rest for n in news):
        return "collision"
    return "applies"


def updatefiltered_ops(shape):
    """update_filtered_policies: applies / new rule equal to a selected one / collision with an unselected rule /
    no new rules / nothing selected / rule repeated in the batch"""
    P, G, G2, R = universe(shape)
    fresh = [P[0][:-1] + ["write"], P[1][:-1] + ["write"]]
    sel = [P[0][0]]
    other = [r for r in P if r[0] != P[0][0]]
    return [("updatefiltered", [fresh[0]], 0, sel), ("updatefiltered", [fresh[0], P[0]], 0, sel), ("updatefiltered", [fresh[0], fresh[0]], 0, sel),
            ("updatefiltered", [fresh[0]] + other[:1], 0, sel), ("updatefiltered", [], 0, sel), ("updatefiltered", [fresh[1]], 0, ["nobody"]),
            ("updatefiltered", [fresh[1]], 1, [P[0][1]])]
