#!/venv/bin/python
"""Entry point behind /verif/check.

  check --setup                    translate everything, build the lake project (library, proofs, driver)
  check Cxx [--tier quick|thorough]
  check Cxx --replay replays/Cxx/<h>.json

Exit codes: 0 = property held on everything explored (KNOWN-FINDING lines allowed), 1 = VIOLATION line printed,
2 = infrastructure failure / timeout (never a verdict)."""
import argparse
import importlib
import json
import os
import random
import sys
import time
import traceback

sys.path.insert(0, os.path.dirname(os.path.abspath(__file__)))
import common  # noqa: E402
from common import Infra  # noqa: E402


def setup():
    lock = common._lock()
    try:
        tr = common.translate([n for n in common.TRANSLATORS if os.path.exists(os.path.join(common.VERIF, "tools", "translate", common.TRANSLATORS[n][0] + ".py"))])
        for n, err in tr.items():
            if err:
                print(f"setup: translator {n}: {err}")
        ok, log = common.lake_build(["CasbinV", "driver"], timeout=3600)
        print(log[-3000:])
        if not ok:
            print("setup: lake build failed")
            return 2
    finally:
        lock.close()
    return 0


def known_match(prop, sig):
    for k in common.load_known():
        if k["property"] == prop and k.get("status") == "open" and (k["signature"] == sig or sig in k.get("signatures", [])):
            return k
    return None


def run_check(prop, tier, seed):
    t0 = time.time()
    mod = importlib.import_module("props." + prop.lower())
    thorough = tier == "thorough"
    proof_ok, info = common.prepare_lean(prop, getattr(mod, "TRANSLATORS", []), thorough)
    ctx = {
        "prop": prop,
        "tier": tier,
        "seed": seed,
        "rng": random.Random(seed),
        "proof_ok": proof_ok,
        "deep": thorough or not proof_ok,
        "info": info,
    }
    res = mod.run(ctx)
    # minimised past failures always run as well
    cdir = os.path.join(common.VERIF, "corpus", prop)
    ncorpus = 0
    if os.path.isdir(cdir):
        for fn in sorted(os.listdir(cdir)):
            if fn.endswith(".json"):
                obj = json.load(open(os.path.join(cdir, fn)))
                if obj.get("kind") != "failing-input":
                    continue  # a module-specific corpus case (the module runs those itself), not a replay file
                ncorpus += 1
                try:
                    still = mod.replay(obj)
                except Exception as ex:  # a corpus entry that no longer executes is reported, not ignored
                    still = True
                    obj = dict(obj, what=f"corpus entry {fn} raised {type(ex).__name__}: {ex}")
                if still:
                    res.violation(dict(obj, signature=obj.get("signature", "corpus:" + fn), what="corpus " + fn + ": " + obj.get("what", "")))
    res.extra["corpus_cases_replayed"] = ncorpus

    if res.model_vs_spec:
        # the executable model contradicts the executable spec although their agreement is a theorem:
        # the driver or the statement is wrong -> broken check, not a verdict
        raise Infra("model vs spec disagreement (should be impossible): " + json.dumps(res.model_vs_spec[0], default=str)[:800])

    lines = []
    new_violations = []
    known_seen = {}
    for v in res.spec_violations:
        k = known_match(prop, v.get("signature", ""))
        if k:
            known_seen.setdefault(k["signature"], (k, v))
        else:
            new_violations.append(v)
    for sig, (k, v) in known_seen.items():
        lines.append(f"KNOWN-FINDING: property={prop} {k['id']} {k['what']}")

    exit_code = 0
    nviol = 0
    if new_violations:
        # one replay per distinct signature
        seen = set()
        for v in new_violations:
            s = v.get("signature", "")
            if s in seen:
                continue
            seen.add(s)
            path = common.write_replay(prop, dict(v, kind="failing-input", broken=info["broken"] + [d.get("what", "") for d in res.corr_disagreements[:3]]))
            lines.append(f"VIOLATION property={prop} replay={path}")
            nviol += 1
        exit_code = 1
    elif not proof_ok or res.corr_disagreements:
        broken = list(info["broken"])
        if res.corr_disagreements:
            broken.append(f"correspondence {prop}: implementation and Lean model disagree on {len(res.corr_disagreements)} case(s)")
        path = common.write_replay(
            prop,
            {
                "kind": "no-failing-input-found",
                "broken": broken,
                "first_disagreements": res.corr_disagreements[:3],
                "build_log_tail": info.get("build_log_tail", "")[-1500:],
                "searched": {"evaluations": res.evaluations, "rule": res.rule},
            },
        )
        lines.append(f"VIOLATION property={prop} replay={path} no-failing-input-found")
        nviol = 1
        exit_code = 1

    au = info["audit"]
    coverage = {
        "obligations": au["obligations"],
        "discharged": au["discharged"],
        "checker_cmd": au["checker_cmd"],
        "trusted_base": common.TRUSTED_BASE + getattr(mod, "TRUSTED_EXTRA", []),
        "axioms_reported": au.get("axioms", []),
        "theorems": au.get("theorems", []),
        "translators": {k: ("ok" if v is None else v) for k, v in info["translators"].items()},
        "evaluations": res.evaluations,
        "distinct_nontrivial": len(res.nontrivial),
        "rule": res.rule,
        "samples": res.samples,
        "exhaustive": res.exhaustive,
        "traces_validated_against_impl": res.traces_validated,
        "disagreements_impl_vs_model": max(res.n_corr, len(res.corr_disagreements)),
        "impl_vs_spec_violations": max(res.n_spec, len(res.spec_violations)),
        "known_findings_reproduced": sorted(known_seen),
        "input_distribution": res.dist,
    }
    if "leanchecker" in au:
        coverage["leanchecker"] = au["leanchecker"]
    coverage.update(res.extra)
    level = getattr(mod, "LEVEL", "proof")
    common.write_evidence(prop, tier, seed, level, coverage, getattr(mod, "ASSUMPTIONS", []), time.time() - t0, nviol)
    for ln in lines:
        print(ln)
    print(f"{prop} [{tier}] obligations {au['discharged']}/{au['obligations']}, {res.evaluations} evaluations, "
          f"{max(res.n_corr, len(res.corr_disagreements))} impl-vs-model, {max(res.n_spec, len(res.spec_violations))} impl-vs-spec "
          f"({len(known_seen)} known signature(s)), {time.time()-t0:.1f}s -> exit {exit_code}")
    return exit_code


def replay(prop, path):
    mod = importlib.import_module("props." + prop.lower())
    obj = json.load(open(os.path.join(common.VERIF, path) if not os.path.isabs(path) else path))
    if obj.get("kind") == "no-failing-input-found":
        print("this replay names a broken proof obligation / correspondence, there is no input to re-execute:")
        for b in obj.get("broken", []):
            print("  -", b)
        return 1
    still = mod.replay(obj)
    print("replay:", "still fails" if still else "no longer fails", "-", obj.get("what", ""))
    return 1 if still else 0


def main():
    ap = argparse.ArgumentParser()
    ap.add_argument("prop", nargs="?")
    ap.add_argument("--tier", default=os.environ.get("VERIF_TIER", "quick"))
    ap.add_argument("--replay")
    ap.add_argument("--setup", action="store_true")
    a = ap.parse_args()
    try:
        if a.setup:
            return setup()
        if not a.prop:
            ap.error("property id required")
        seed = int(os.environ.get("VERIF_SEED", "0"))
        if a.replay:
            return replay(a.prop, a.replay)
        return run_check(a.prop, a.tier if a.tier in ("quick", "thorough") else "quick", seed)
    except Infra as e:
        print("INFRASTRUCTURE FAILURE:", e)
        return 2
    except Exception:
        traceback.print_exc()
        return 2


if __name__ == "__main__":
    sys.exit(main())
