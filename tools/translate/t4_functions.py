#!/usr/bin/env python3
"""T4: casbin/model/function.py + the `*_func` wrappers of casbin/util/builtin_operators.py -> Gen/FunctionTable.lean

Grammar accepted (anything else => Untranslatable, never guessed):
  FunctionMap.load_function_map:  fm = FunctionMap(); (fm.add_function("<name>", util.<wrapper>))*; return fm
  wrapper:  def <wrapper>(*args): [docstring] (<v> = args[<int>] | <v>, <w> = args[<int>], args[<int>])*
            return <callee>(<v> | args[<int>], ...)
            -> `.call "<callee>" [positions]`; any other wrapper body is emitted verbatim as `.other "<source>"`
            (so that it is visible to the theorem, not hidden).
  Every registered wrapper must be defined in builtin_operators.py and re-exported by casbin/util/__init__.py
  through `from .builtin_operators import *`.
"""
import ast
import os
import sys


class Untranslatable(Exception):
    pass


def _fail(node, path, why):
    raise Untranslatable(f"{path}:{getattr(node, 'lineno', '?')}: {why}")


def _strip_doc(body):
    if body and isinstance(body[0], ast.Expr) and isinstance(getattr(body[0], "value", None), ast.Constant):
        if isinstance(body[0].value.value, str):
            return body[1:]
    return body


def lstr(s):
    return '"' + s.replace("\\", "\\\\").replace('"', '\\"').replace("\n", "\\n") + '"'


def _args_index(node):
    """`args[<non-negative int literal>]` -> the int, else None"""
    if (
        isinstance(node, ast.Subscript)
        and isinstance(node.value, ast.Name)
        and node.value.id == "args"
        and isinstance(node.slice, ast.Constant)
        and isinstance(node.slice.value, int)
        and not isinstance(node.slice.value, bool)
        and node.slice.value >= 0
    ):
        return node.slice.value
    return None


def _wrapper_shape(fn):
    a = fn.args
    if a.args or a.kwonlyargs or a.kwarg or a.posonlyargs or not a.vararg or a.vararg.arg != "args":
        return None
    body = _strip_doc(fn.body)
    if not body:
        return None
    env = {}
    for st in body[:-1]:
        if not (isinstance(st, ast.Assign) and len(st.targets) == 1):
            return None
        tgt, val = st.targets[0], st.value
        if isinstance(tgt, ast.Name):
            pairs = [(tgt, val)]
        elif isinstance(tgt, ast.Tuple) and isinstance(val, ast.Tuple) and len(tgt.elts) == len(val.elts):
            pairs = list(zip(tgt.elts, val.elts))  # `a, b = args[0], args[1]`
        else:
            return None
        new = {}
        for t, v in pairs:
            i = _args_index(v)
            if not isinstance(t, ast.Name) or i is None:
                return None
            new[t.id] = i
        env.update(new)
    last = body[-1]
    if not (isinstance(last, ast.Return) and isinstance(last.value, ast.Call) and isinstance(last.value.func, ast.Name) and not last.value.keywords):
        return None
    pos = []
    for arg in last.value.args:
        if isinstance(arg, ast.Name) and arg.id in env:
            pos.append(env[arg.id])
        elif _args_index(arg) is not None:
            pos.append(_args_index(arg))  # `return f(args[0], args[1])`
        else:
            return None
    return last.value.func.id, pos


def translate(repo):
    fpath = os.path.join(repo, "casbin", "model", "function.py")
    bpath = os.path.join(repo, "casbin", "util", "builtin_operators.py")
    ipath = os.path.join(repo, "casbin", "util", "__init__.py")
    tree = ast.parse(open(fpath).read())
    cls = [n for n in tree.body if isinstance(n, ast.ClassDef) and n.name == "FunctionMap"]
    if len(cls) != 1:
        raise Untranslatable(f"{fpath}: class FunctionMap not found")
    lf = [n for n in cls[0].body if isinstance(n, ast.FunctionDef) and n.name == "load_function_map"]
    if len(lf) != 1:
        _fail(cls[0], fpath, "load_function_map not found")
    body = _strip_doc(lf[0].body)
    if len(body) < 2:
        _fail(lf[0], fpath, "unexpected body")
    first, last = body[0], body[-1]
    if not (
        isinstance(first, ast.Assign)
        and len(first.targets) == 1
        and isinstance(first.targets[0], ast.Name)
        and isinstance(first.value, ast.Call)
        and isinstance(first.value.func, ast.Name)
        and first.value.func.id == "FunctionMap"
        and not first.value.args
    ):
        _fail(first, fpath, "expected `fm = FunctionMap()`")
    var = first.targets[0].id
    if not (isinstance(last, ast.Return) and isinstance(last.value, ast.Name) and last.value.id == var):
        _fail(last, fpath, f"expected `return {var}`")
    table = []
    for st in body[1:-1]:
        ok = (
            isinstance(st, ast.Expr)
            and isinstance(st.value, ast.Call)
            and isinstance(st.value.func, ast.Attribute)
            and st.value.func.attr == "add_function"
            and isinstance(st.value.func.value, ast.Name)
            and st.value.func.value.id == var
            and len(st.value.args) == 2
            and not st.value.keywords
            and isinstance(st.value.args[0], ast.Constant)
            and isinstance(st.value.args[0].value, str)
            and isinstance(st.value.args[1], ast.Attribute)
            and isinstance(st.value.args[1].value, ast.Name)
            and st.value.args[1].value.id == "util"
        )
        if not ok:
            _fail(st, fpath, 'expected `fm.add_function("<name>", util.<wrapper>)`')
        table.append((st.value.args[0].value, st.value.args[1].attr))
    # add_function itself must be a plain dict store (later registrations overwrite earlier ones)
    af = [n for n in cls[0].body if isinstance(n, ast.FunctionDef) and n.name == "add_function"]
    if len(af) != 1 or ast.unparse(_strip_doc(af[0].body)[0]).replace(" ", "") != "self.fm[name]=func" or len(_strip_doc(af[0].body)) != 1:
        _fail(cls[0], fpath, "add_function must be `self.fm[name] = func`")
    gf = [n for n in cls[0].body if isinstance(n, ast.FunctionDef) and n.name == "get_functions"]
    if len(gf) != 1 or [ast.unparse(s) for s in _strip_doc(gf[0].body)] != ["return self.fm"]:
        _fail(cls[0], fpath, "get_functions must be `return self.fm`")

    init_src = open(ipath).read()
    itree = ast.parse(init_src)
    if not any(isinstance(n, ast.ImportFrom) and n.module == "builtin_operators" and n.level == 1 and any(a.name == "*" for a in n.names) for n in itree.body):
        raise Untranslatable(f"{ipath}: `from .builtin_operators import *` not found")

    # later star imports of casbin/util/__init__.py must not shadow a registered wrapper
    seen_bo = False
    for n in itree.body:
        if isinstance(n, ast.ImportFrom) and n.level == 1 and any(a.name == "*" for a in n.names):
            if n.module == "builtin_operators":
                seen_bo = True
            elif seen_bo:
                mp = os.path.join(repo, "casbin", "util", n.module + ".py")
                if not os.path.exists(mp):
                    raise Untranslatable(f"{ipath}: cannot resolve .{n.module}")
                for m in ast.parse(open(mp).read()).body:
                    names = []
                    if isinstance(m, (ast.FunctionDef, ast.ClassDef)):
                        names = [m.name]
                    elif isinstance(m, ast.Assign):
                        names = [t.id for t in m.targets if isinstance(t, ast.Name)]
                    for nm in names:
                        if nm in [w for _, w in table]:
                            raise Untranslatable(f"{mp}: {nm} shadows the wrapper registered in function.py")
        elif isinstance(n, (ast.FunctionDef, ast.Assign)) and seen_bo:
            raise Untranslatable(f"{ipath}:{n.lineno}: definitions after the star import are not supported")

    btree = ast.parse(open(bpath).read())
    fns = {}
    for n in btree.body:
        if isinstance(n, ast.FunctionDef):
            fns[n.name] = n  # a later definition shadows an earlier one, as in Python
    if any(isinstance(n, ast.Assign) and any(isinstance(t, ast.Name) and t.id == "__all__" for t in n.targets) for n in btree.body):
        raise Untranslatable(f"{bpath}: __all__ restricts the star import")
    wrappers = []
    for _, w in table:
        if w in [x[0] for x in wrappers]:
            continue
        if w not in fns:
            raise Untranslatable(f"{bpath}: wrapper {w} is not defined here")
        sh = _wrapper_shape(fns[w])
        if sh is None:
            src = " ; ".join(ast.unparse(s) for s in _strip_doc(fns[w].body))
            wrappers.append((w, f".other {lstr(src[:400])}"))
        else:
            callee, pos = sh
            if callee not in fns:
                raise Untranslatable(f"{bpath}: {w} calls {callee}, which is not a module-level function of this file")
            wrappers.append((w, f".call {lstr(callee)} [{', '.join(str(i) for i in pos)}]"))

    out = []
    out.append("/- GENERATED by tools/translate/t4_functions.py from casbin/model/function.py and casbin/util/builtin_operators.py.")
    out.append("   Do not edit: overwritten on every run. -/")
    out.append("namespace Casbin.Gen")
    out.append("/-- `a = args[i]; b = args[j]; return callee(a, b)` is `.call callee [i, j]` -/")
    out.append("inductive WrapperShape where")
    out.append("  | call (callee : String) (argPositions : List Nat)")
    out.append("  | other (source : String)")
    out.append("  deriving DecidableEq, Repr")
    out.append("/-- `FunctionMap.load_function_map`: matcher-visible name, wrapper (in registration order) -/")
    out.append("def functionMap : List (String × String) := [\n  " + ",\n  ".join(f"({lstr(n)}, {lstr(w)})" for n, w in table) + "]")
    out.append("/-- the wrappers' bodies -/")
    out.append("def wrappers : List (String × WrapperShape) := [\n  " + ",\n  ".join(f"({lstr(w)}, {s})" for w, s in wrappers) + "]")
    out.append("end Casbin.Gen")
    return "\n".join(out) + "\n"


if __name__ == "__main__":
    repo = sys.argv[1] if len(sys.argv) > 1 else os.environ.get("VERIF_REPO", "/repo")
    sys.stdout.write(translate(repo))
