#!/usr/bin/env python3
"""T3: casbin/util/rwlock.py  ->  Gen/RWLockProg.lean

The four methods of RWLockWrite become instruction lists (Model/RWLock.lean: `Instr`), the two context-manager
classes become the method they call on enter/exit.  Grammar accepted (anything else => Untranslatable, never guessed):

  from threading import RLock, Condition
  class RWLockWrite:
      def __init__(self):  self._lock = RLock(); self._cond = Condition(self._lock);
                           self._active_readers = <int>; self._waiting_writers = <int>; self._writer_active = <bool>
      def aquire_read|release_read|aquire_write|release_write(self):  [docstring]  with self._lock: <stmt>+
      def gen_rlock(self): return ReadRWLock(self)     def gen_wlock(self): return WriteRWLock(self)
  <stmt> ::= self._N += 1 | self._N -= 1 | self._N = self._N + 1 | self._N = self._N - 1      N in {_active_readers,_waiting_writers}
           | self._writer_active = True|False
           | while <cond>: self._cond.wait()
           | self._cond.notify_all()
           | if <cond>: <stmt>+                      (no else; flattened to `ifThen c n` + the n body instructions)
  <cond> ::= self._N > 0 | self._N == 0 | self._N != 0 | self._writer_active | not <cond> | <cond> or <cond> | <cond> and <cond>
  class ReadRWLock|WriteRWLock:
      def __init__(self, rwlock): self.rwlock = rwlock
      def __enter__(self): self.rwlock.<method>()
      def __exit__(self, exc_type, exc_value, traceback): self.rwlock.<method>(); return False
"""
import ast
import os
import sys


class Untranslatable(Exception):
    pass


def _fail(node, path, why):
    raise Untranslatable(f"{path}:{getattr(node, 'lineno', '?')}: {why}")


NVARS = {"_active_readers": ".ar", "_waiting_writers": ".ww"}
FLAG = "_writer_active"
METHS = {"aquire_read": ".acqR", "release_read": ".relR", "aquire_write": ".acqW", "release_write": ".relW"}


def _self_attr(node):
    if isinstance(node, ast.Attribute) and isinstance(node.value, ast.Name) and node.value.id == "self":
        return node.attr
    return None


def _strip_doc(body):
    if body and isinstance(body[0], ast.Expr) and isinstance(getattr(body[0], "value", None), ast.Constant):
        if isinstance(body[0].value.value, str):
            return body[1:]
    return body


def _cond(node, path):
    if isinstance(node, ast.Compare) and len(node.ops) == 1 and len(node.comparators) == 1:
        a = _self_attr(node.left)
        rhs = node.comparators[0]
        if a in NVARS and isinstance(rhs, ast.Constant) and type(rhs.value) is int and rhs.value == 0:
            if isinstance(node.ops[0], ast.Gt):
                return f"(.pos {NVARS[a]})"
            if isinstance(node.ops[0], ast.Eq):
                return f"(.isZero {NVARS[a]})"
            if isinstance(node.ops[0], ast.NotEq):
                return f"(.not (.isZero {NVARS[a]}))"
        _fail(node, path, "comparison must be self._<counter> (> | == | !=) 0")
    if _self_attr(node) == FLAG:
        return ".flag"
    if isinstance(node, ast.UnaryOp) and isinstance(node.op, ast.Not):
        return f"(.not {_cond(node.operand, path)})"
    if isinstance(node, ast.BoolOp):
        ctor = ".or" if isinstance(node.op, ast.Or) else ".and"
        vals = [_cond(v, path) for v in node.values]
        out = vals[-1]
        for v in reversed(vals[:-1]):
            out = f"({ctor} {v} {out})"
        return out
    _fail(node, path, "unsupported condition")


def _is_call_on_cond(node, meth):
    return (
        isinstance(node, ast.Expr)
        and isinstance(node.value, ast.Call)
        and not node.value.args
        and not node.value.keywords
        and isinstance(node.value.func, ast.Attribute)
        and node.value.func.attr == meth
        and _self_attr(node.value.func.value) == "_cond"
    )


def _stmts(body, path):
    out = []
    for st in body:
        out += _stmt(st, path)
    return out


def _stmt(st, path):
    if isinstance(st, ast.AugAssign):
        a = _self_attr(st.target)
        if a in NVARS and isinstance(st.value, ast.Constant) and type(st.value.value) is int and st.value.value == 1:
            if isinstance(st.op, ast.Add):
                return [f".inc {NVARS[a]}"]
            if isinstance(st.op, ast.Sub):
                return [f".dec {NVARS[a]}"]
        _fail(st, path, "augmented assignment must be self._<counter> += 1 / -= 1")
    if isinstance(st, ast.Assign) and len(st.targets) == 1:
        a = _self_attr(st.targets[0])
        if a == FLAG and isinstance(st.value, ast.Constant) and isinstance(st.value.value, bool):
            return [f".setFlag {'true' if st.value.value else 'false'}"]
        if (
            a in NVARS
            and isinstance(st.value, ast.BinOp)
            and _self_attr(st.value.left) == a
            and isinstance(st.value.right, ast.Constant)
            and type(st.value.right.value) is int
            and st.value.right.value == 1
        ):
            if isinstance(st.value.op, ast.Add):
                return [f".inc {NVARS[a]}"]
            if isinstance(st.value.op, ast.Sub):
                return [f".dec {NVARS[a]}"]
        _fail(st, path, "assignment outside the grammar")
    if isinstance(st, ast.While):
        if st.orelse or len(st.body) != 1 or not _is_call_on_cond(st.body[0], "wait"):
            _fail(st, path, "while loop must be `while <cond>: self._cond.wait()`")
        return [f".waitWhile {_cond(st.test, path)}"]
    if _is_call_on_cond(st, "notify_all"):
        return [".notifyAll"]
    if isinstance(st, ast.If):
        if st.orelse:
            _fail(st, path, "if with else")
        body = _stmts(st.body, path)
        return [f".ifThen {_cond(st.test, path)} {len(body)}"] + body
    _fail(st, path, "statement outside the grammar: " + ast.unparse(st).split("\n")[0][:60])


def _method_body(fn, path):
    if [a.arg for a in fn.args.args] != ["self"] or fn.args.vararg or fn.args.kwarg or fn.args.kwonlyargs or fn.decorator_list:
        _fail(fn, path, f"{fn.name} must take only self")
    body = _strip_doc(fn.body)
    if len(body) != 1 or not isinstance(body[0], ast.With):
        _fail(fn, path, f"{fn.name}: body must be exactly one `with self._lock:` block")
    w = body[0]
    if len(w.items) != 1 or w.items[0].optional_vars is not None or _self_attr(w.items[0].context_expr) != "_lock":
        _fail(w, path, "with item must be self._lock")
    return _stmts(w.body, path)


def _init(fn, path):
    if [a.arg for a in fn.args.args] != ["self"]:
        _fail(fn, path, "__init__(self)")
    seen = {}
    for st in _strip_doc(fn.body):
        if not (isinstance(st, ast.Assign) and len(st.targets) == 1 and _self_attr(st.targets[0])):
            _fail(st, path, "__init__: only self.<attr> = <value>")
        a = _self_attr(st.targets[0])
        v = st.value
        if a in seen:
            _fail(st, path, f"__init__: {a} assigned twice")
        if a == "_lock":
            ok = isinstance(v, ast.Call) and isinstance(v.func, ast.Name) and v.func.id == "RLock" and not v.args and not v.keywords
            if not ok:
                _fail(st, path, "self._lock must be RLock()")
            seen[a] = True
        elif a == "_cond":
            ok = (
                isinstance(v, ast.Call)
                and isinstance(v.func, ast.Name)
                and v.func.id == "Condition"
                and len(v.args) == 1
                and not v.keywords
                and _self_attr(v.args[0]) == "_lock"
            )
            if not ok:
                _fail(st, path, "self._cond must be Condition(self._lock)")
            if "_lock" not in seen:
                _fail(st, path, "self._cond before self._lock")
            seen[a] = True
        elif a in NVARS:
            if not (isinstance(v, ast.Constant) and type(v.value) is int):
                _fail(st, path, f"{a} must start as an int literal")
            seen[a] = v.value
        elif a == FLAG:
            if not (isinstance(v, ast.Constant) and isinstance(v.value, bool)):
                _fail(st, path, f"{a} must start as a bool literal")
            seen[a] = v.value
        else:
            _fail(st, path, f"unexpected attribute {a}")
    for need in ("_lock", "_cond", "_active_readers", "_waiting_writers", FLAG):
        if need not in seen:
            _fail(fn, path, f"__init__ does not set {need}")
    return seen


def _gen(fn, path):
    body = _strip_doc(fn.body)
    ok = (
        [a.arg for a in fn.args.args] == ["self"]
        and len(body) == 1
        and isinstance(body[0], ast.Return)
        and isinstance(body[0].value, ast.Call)
        and isinstance(body[0].value.func, ast.Name)
        and len(body[0].value.args) == 1
        and isinstance(body[0].value.args[0], ast.Name)
        and body[0].value.args[0].id == "self"
        and not body[0].value.keywords
    )
    if not ok:
        _fail(fn, path, f"{fn.name} must be `return <ContextManagerClass>(self)`")
    cls = body[0].value.func.id
    if cls == "ReadRWLock":
        return ".read"
    if cls == "WriteRWLock":
        return ".write"
    _fail(fn, path, f"unknown context manager class {cls}")


def _cm_call(st, path):
    ok = (
        isinstance(st, ast.Expr)
        and isinstance(st.value, ast.Call)
        and not st.value.args
        and not st.value.keywords
        and isinstance(st.value.func, ast.Attribute)
        and _self_attr(st.value.func.value) == "rwlock"
        and st.value.func.attr in METHS
    )
    if not ok:
        _fail(st, path, "expected self.rwlock.<aquire_*|release_*>()")
    return METHS[st.value.func.attr]


def _cm_class(cls, path):
    fns = {}
    for st in cls.body:
        if isinstance(st, ast.FunctionDef):
            fns[st.name] = st
        elif isinstance(st, ast.Expr) and isinstance(st.value, ast.Constant):
            pass
        else:
            _fail(st, path, "unexpected statement in context manager class")
    if set(fns) != {"__init__", "__enter__", "__exit__"}:
        _fail(cls, path, f"{cls.name} must define exactly __init__, __enter__, __exit__")
    ini = _strip_doc(fns["__init__"].body)
    ok = (
        [a.arg for a in fns["__init__"].args.args] == ["self", "rwlock"]
        and len(ini) == 1
        and isinstance(ini[0], ast.Assign)
        and len(ini[0].targets) == 1
        and _self_attr(ini[0].targets[0]) == "rwlock"
        and isinstance(ini[0].value, ast.Name)
        and ini[0].value.id == "rwlock"
    )
    if not ok:
        _fail(fns["__init__"], path, "__init__ must be `self.rwlock = rwlock`")
    en = _strip_doc(fns["__enter__"].body)
    if [a.arg for a in fns["__enter__"].args.args] != ["self"] or len(en) != 1:
        _fail(fns["__enter__"], path, "__enter__(self) must be one call")
    enter = _cm_call(en[0], path)
    ex = _strip_doc(fns["__exit__"].body)
    if len(fns["__exit__"].args.args) != 4 or len(ex) != 2:
        _fail(fns["__exit__"], path, "__exit__ must be one call followed by `return False`")
    exit_ = _cm_call(ex[0], path)
    r = ex[1]
    if not (isinstance(r, ast.Return) and isinstance(r.value, ast.Constant) and r.value.value is False):
        _fail(r, path, "__exit__ must `return False` (exceptions propagate)")
    return enter, exit_


def translate(repo):
    path = os.path.join(repo, "casbin", "util", "rwlock.py")
    tree = ast.parse(open(path).read())
    classes = {}
    imported = set()
    for node in tree.body:
        if isinstance(node, ast.ClassDef):
            if node.bases or node.decorator_list or node.keywords:
                _fail(node, path, "class with bases/decorators")
            classes[node.name] = node
        elif isinstance(node, ast.ImportFrom) and node.module == "threading" and node.level == 0:
            for a in node.names:
                if a.asname:
                    _fail(node, path, "import alias")
                imported.add(a.name)
        elif isinstance(node, ast.Expr) and isinstance(node.value, ast.Constant):
            pass
        else:
            _fail(node, path, "unexpected top-level statement")
    if not {"RLock", "Condition"} <= imported:
        raise Untranslatable(f"{path}: RLock and Condition must be imported from threading")
    if set(classes) != {"RWLockWrite", "ReadRWLock", "WriteRWLock"}:
        raise Untranslatable(f"{path}: expected exactly the classes RWLockWrite, ReadRWLock, WriteRWLock, found {sorted(classes)}")
    fns = {}
    for st in classes["RWLockWrite"].body:
        if isinstance(st, ast.FunctionDef):
            if st.name in fns:
                _fail(st, path, f"{st.name} defined twice")
            fns[st.name] = st
        elif isinstance(st, ast.Expr) and isinstance(st.value, ast.Constant):
            pass
        else:
            _fail(st, path, "unexpected statement in RWLockWrite")
    want = {"__init__", "gen_rlock", "gen_wlock"} | set(METHS)
    if set(fns) != want:
        raise Untranslatable(f"{path}: RWLockWrite must define exactly {sorted(want)}, found {sorted(fns)}")
    init = _init(fns["__init__"], path)
    bodies = {m: _method_body(fns[m], path) for m in METHS}
    gen_r = _gen(fns["gen_rlock"], path)
    gen_w = _gen(fns["gen_wlock"], path)
    r_enter, r_exit = _cm_class(classes["ReadRWLock"], path)
    w_enter, w_exit = _cm_class(classes["WriteRWLock"], path)

    def ilist(xs):
        return "[" + ", ".join(xs) + "]"

    out = []
    out.append("/- GENERATED by tools/translate/t3_rwlock.py from casbin/util/rwlock.py.")
    out.append("   Do not edit: overwritten on every run. -/")
    out.append("import CasbinV.Model.RWLock")
    out.append("namespace Casbin.Gen")
    out.append("open Casbin.RW")
    out.append("/-- `RWLockWrite`: every method body is one `with self._lock:` block holding these instructions -/")
    out.append("def rwlockProg : Prog := {")
    out.append(f"  initAr := {init['_active_readers']}, initWw := {init['_waiting_writers']}, initWa := {'true' if init[FLAG] else 'false'},")
    out.append(f"  acqR := {ilist(bodies['aquire_read'])},")
    out.append(f"  relR := {ilist(bodies['release_read'])},")
    out.append(f"  acqW := {ilist(bodies['aquire_write'])},")
    out.append(f"  relW := {ilist(bodies['release_write'])},")
    out.append(f"  genR := {gen_r}, genW := {gen_w},")
    out.append(f"  readEnter := {r_enter}, readExit := {r_exit}, writeEnter := {w_enter}, writeExit := {w_exit} }}")
    out.append("end Casbin.Gen")
    return "\n".join(out) + "\n"


if __name__ == "__main__":
    repo = sys.argv[1] if len(sys.argv) > 1 else os.environ.get("VERIF_REPO", "/repo")
    sys.stdout.write(translate(repo))
