#!/usr/bin/env python3
"""T2: casbin/synced_enforcer.py  ->  Gen/SyncedTable.lean

One record per public method of `SyncedEnforcer` (name not starting with `_`):
  name, the wrapper's own parameters, and the shape of its body:
    .wrap mode callee args returns     body = docstring* + [with self._rl|self._wl:] + [return] self._e.<callee>(<args>)
    .locked mode "<unparse>"           body = docstring* + ONE `with self._rl|self._wl:` block whose statements mention `self`
                                       only as `self._e` (so it cannot re-enter a wrapper and dead-lock) — not a plain forward
    .other "<unparse>" [uses]          anything else (unlocked multi-statement bodies stay visible to the theorems);
                                       uses = the dotted attribute chains rooted at `self` the body mentions
  args: `.pos p` (bare name), `.star p` (*p), `.kw k v` (k=v with v a bare name), `.kwstar p` (**p), `.expr "<unparse>"`.
Also emitted: the attributes `__init__` binds (`_e`, `_rwlock`, `_rl`, `_wl`) so that a swapped `gen_rlock`/`gen_wlock`
is visible (`initOk`).  Decorated methods, nested classes, class attributes => Untranslatable.
"""
import ast
import os
import sys


class Untranslatable(Exception):
    pass


def _fail(node, path, why):
    raise Untranslatable(f"{path}:{getattr(node, 'lineno', '?')}: {why}")


def lstr(s):
    out = []
    for ch in s:
        if ch == "\\":
            out.append("\\\\")
        elif ch == '"':
            out.append('\\"')
        elif ch == "\n":
            out.append("\\n")
        elif ch == "\t":
            out.append("\\t")
        elif ord(ch) < 32 or ord(ch) > 126:
            out.append("\\u{%x}" % ord(ch))
        else:
            out.append(ch)
    return '"' + "".join(out) + '"'


def _strip_doc(body):
    out = list(body)
    while out and isinstance(out[0], ast.Expr) and isinstance(getattr(out[0], "value", None), ast.Constant) and isinstance(out[0].value.value, str):
        out = out[1:]
    return out


def _self_attr(node):
    if isinstance(node, ast.Attribute) and isinstance(node.value, ast.Name) and node.value.id == "self":
        return node.attr
    return None


def _params(fn, path):
    a = fn.args
    if a.posonlyargs:
        _fail(fn, path, "positional-only parameters")
    if not a.args or a.args[0].arg != "self":
        _fail(fn, path, "first parameter must be self")
    out = []
    pos = a.args[1:]
    nd = len(a.defaults)
    for i, p in enumerate(pos):
        di = i - (len(pos) - nd)
        if di >= 0:
            out.append(f".posDefault {lstr(p.arg)} {lstr(ast.unparse(a.defaults[di]))}")
        else:
            out.append(f".pos {lstr(p.arg)}")
    if a.vararg:
        out.append(f".star {lstr(a.vararg.arg)}")
    for p, d in zip(a.kwonlyargs, a.kw_defaults):
        out.append(f".kwonly {lstr(p.arg)} {lstr(ast.unparse(d) if d is not None else '')}")
    if a.kwarg:
        out.append(f".kwargs {lstr(a.kwarg.arg)}")
    return out


def _args(call):
    out = []
    for x in call.args:
        if isinstance(x, ast.Name):
            out.append(f".pos {lstr(x.id)}")
        elif isinstance(x, ast.Starred) and isinstance(x.value, ast.Name):
            out.append(f".star {lstr(x.value.id)}")
        else:
            out.append(f".expr {lstr(ast.unparse(x))}")
    for k in call.keywords:
        if k.arg is None and isinstance(k.value, ast.Name):
            out.append(f".kwstar {lstr(k.value.id)}")
        elif k.arg is not None and isinstance(k.value, ast.Name):
            out.append(f".kw {lstr(k.arg)} {lstr(k.value.id)}")
        else:
            out.append(f".expr {lstr(ast.unparse(k))}")
    return out


def _forward(st):
    """`[return] self._e.<m>(args)` -> (callee, args, returns) or None"""
    if isinstance(st, ast.Return) and st.value is not None:
        call, ret = st.value, True
    elif isinstance(st, ast.Expr):
        call, ret = st.value, False
    else:
        return None
    if not isinstance(call, ast.Call):
        return None
    f = call.func
    if isinstance(f, ast.Attribute) and _self_attr(f.value) == "_e":
        return f.attr, _args(call), ret
    return None


def _lock_mode(w):
    if len(w.items) != 1 or w.items[0].optional_vars is not None:
        return None
    a = _self_attr(w.items[0].context_expr)
    return {"_rl": ".read", "_wl": ".write"}.get(a)


def _only_inner_self(nodes):
    """every occurrence of the name `self` is the `self` of `self._e`"""
    for n in nodes:
        ok_selfs = set()
        for sub in ast.walk(n):
            if isinstance(sub, ast.Attribute) and isinstance(sub.value, ast.Name) and sub.value.id == "self" and sub.attr == "_e":
                ok_selfs.add(id(sub.value))
        for sub in ast.walk(n):
            if isinstance(sub, ast.Name) and sub.id == "self" and id(sub) not in ok_selfs:
                return False
    return True


def _shape(fn, path):
    body = _strip_doc(fn.body)
    src = "; ".join(ast.unparse(s).replace("\n", " ") for s in body)
    src = " ".join(src.split())
    if len(body) == 1:
        st = body[0]
        if isinstance(st, ast.With):
            mode = _lock_mode(st)
            if mode is not None:
                inner = _strip_doc(st.body)
                if len(inner) == 1:
                    fw = _forward(inner[0])
                    if fw is not None:
                        callee, args, ret = fw
                        return f".wrap {mode} {lstr(callee)} [{', '.join(args)}] {'true' if ret else 'false'}"
                if _only_inner_self(st.body):
                    return f".locked {mode} {lstr(src)}"
        else:
            fw = _forward(st)
            if fw is not None:
                callee, args, ret = fw
                return f".wrap .none {lstr(callee)} [{', '.join(args)}] {'true' if ret else 'false'}"
    return f".other {lstr(src)} [{', '.join(lstr(u) for u in _uses(body))}]"


def _uses(nodes):
    """dotted attribute chains rooted at `self` that the body mentions (maximal chains, in order of appearance)"""
    out = []
    inner = set()
    for n in nodes:
        for sub in ast.walk(n):
            if isinstance(sub, ast.Attribute):
                chain = []
                x = sub
                while isinstance(x, ast.Attribute):
                    chain.append(x.attr)
                    x = x.value
                if isinstance(x, ast.Name) and x.id == "self" and id(sub) not in inner:
                    y = sub.value
                    while isinstance(y, ast.Attribute):
                        inner.add(id(y))
                        y = y.value
                    out.append(".".join(reversed(chain)))
            elif isinstance(sub, ast.Name) and sub.id == "self":
                pass
    res = []
    for u in out:
        if u not in res:
            res.append(u)
    # a bare `self` passed around would escape the analysis
    for n in nodes:
        for sub in ast.walk(n):
            for child in ast.iter_child_nodes(sub):
                if isinstance(child, ast.Name) and child.id == "self" and not isinstance(sub, ast.Attribute):
                    if "<bare self>" not in res:
                        res.append("<bare self>")
    return res


def _init(fn, path):
    """attribute -> unparse of the value bound in __init__ (only plain `self.x = <expr>` statements accepted)"""
    out = []
    for st in _strip_doc(fn.body):
        if isinstance(st, ast.Assign) and len(st.targets) == 1 and _self_attr(st.targets[0]):
            out.append((_self_attr(st.targets[0]), " ".join(ast.unparse(st.value).split())))
        else:
            _fail(st, path, "__init__: only `self.<attr> = <expr>` statements are understood")
    return out


def translate(repo):
    path = os.path.join(repo, "casbin", "synced_enforcer.py")
    tree = ast.parse(open(path).read())
    cls = [n for n in tree.body if isinstance(n, ast.ClassDef) and n.name == "SyncedEnforcer"]
    if len(cls) != 1:
        raise Untranslatable(f"{path}: class SyncedEnforcer not found exactly once")
    cls = cls[0]
    if cls.bases or cls.decorator_list or cls.keywords:
        _fail(cls, path, "SyncedEnforcer must not have bases/decorators (inherited methods would escape the table)")
    rows = []
    init = None
    seen = set()
    for st in cls.body:
        if isinstance(st, ast.Expr) and isinstance(st.value, ast.Constant):
            continue
        if isinstance(st, ast.AsyncFunctionDef):
            _fail(st, path, "async method")
        if not isinstance(st, ast.FunctionDef):
            _fail(st, path, "unexpected statement in class SyncedEnforcer: " + ast.unparse(st).split("\n")[0][:60])
        if st.decorator_list:
            _fail(st, path, f"decorated method {st.name}")
        if st.name in seen:
            _fail(st, path, f"{st.name} defined twice")
        seen.add(st.name)
        if st.name == "__init__":
            init = _init(st, path)
            continue
        if st.name.startswith("_"):
            # private helpers: listed with their shape so that the theorems see them, flagged private
            rows.append((st.name, _params(st, path), _shape(st, path), True))
            continue
        rows.append((st.name, _params(st, path), _shape(st, path), False))
    if init is None:
        raise Untranslatable(f"{path}: SyncedEnforcer.__init__ not found")
    out = []
    out.append("/- GENERATED by tools/translate/t2_synced.py from casbin/synced_enforcer.py.")
    out.append("   Do not edit: overwritten on every run. -/")
    out.append("import CasbinV.Model.Synced")
    out.append("namespace Casbin.Gen")
    out.append("open Casbin.Synced")
    out.append("/-- attributes bound by `SyncedEnforcer.__init__` -/")
    out.append("def syncedInit : List (String × String) := [\n  " + ",\n  ".join(f"({lstr(a)}, {lstr(v)})" for a, v in init) + "]")
    out.append(f"/-- the {sum(1 for r in rows if not r[3])} public methods (and {sum(1 for r in rows if r[3])} private helpers) of `SyncedEnforcer` -/")
    out.append("def syncedTable : List Row := [")
    lines = []
    for name, params, shape, private in rows:
        lines.append(f"  {{ name := {lstr(name)}, isPrivate := {'true' if private else 'false'}, params := [{', '.join(params)}],\n    shape := {shape} }}")
    out.append(",\n".join(lines) + "]")
    out.append("end Casbin.Gen")
    return "\n".join(out) + "\n"


if __name__ == "__main__":
    repo = sys.argv[1] if len(sys.argv) > 1 else os.environ.get("VERIF_REPO", "/repo")
    sys.stdout.write(translate(repo))
