#!/usr/bin/env python3
"""writes MANIFEST.json from tools/manifest_table.json (one entry per claimed property)"""
import json, os
V = os.path.dirname(os.path.dirname(os.path.abspath(__file__)))
table = json.load(open(os.path.join(V, "tools", "manifest_table.json")))
props = [json.loads(l)["id"] for l in open(os.path.join(V, "properties.jsonl")) if l.strip()]
checks = []
for pid in props:
    if pid not in table["claimed"]:
        continue
    t = table["claimed"][pid]
    checks.append({
        "property_id": pid,
        "quick_cmd": f"./check {pid} --tier quick",
        "thorough_cmd": f"./check {pid} --tier thorough",
        "evidence_file": f"evidence/{pid}.json",
        "replay_cmd_template": f"./check {pid} --replay {{path}}",
        "engine": "lean4-proof+correspondence",
        "level_claimed": {"category": t.get("category", "proof"), "text": t["text"], "design_ref": t.get("design_ref", "DESIGN.md §6 " + pid)},
        "level_note": t["note"],
        "technique": t["technique"],
    })
na = [{"property_id": pid, "reason": table["not_applicable"].get(pid, "check not built yet (work in progress); not claimed")} for pid in props if pid not in table["claimed"]]
m = {
    "version": 1,
    "setup_cmd": "./check --setup",
    "hooks": {
        "guard": "CASBIN_PYCASBIN_VERIF",
        "enable": "no hooks are compiled into /repo: the harness instruments from outside (module-global substitution, subclassing); the guard variable is declared but unused",
        "baseline_off_cmd": "cd /repo && /venv/bin/python -m pytest -q -p no:cacheprovider --timeout=900",
        "source_commits": table.get("source_commits", []),
        "add_only": True,
    },
    "engines": [{
        "name": "lean4-proof+correspondence",
        "path": "lean/ (lake project CasbinV: Model, Gen, Props, Driver) + tools/harness + tools/translate",
        "serves_properties": [c["property_id"] for c in checks],
        "kind_free_text": "Lean 4 theorems about an executable model; model tied to /repo on every run by translators (Gen/*.lean regenerated from source) and by differential execution of the model (compiled line-protocol driver) against the real Python objects",
    }],
    "checks": checks,
    "notes": table.get("notes", ""),
    "not_applicable": na,
}
json.dump(m, open(os.path.join(V, "MANIFEST.json"), "w"), indent=1)
print("claimed:", [c["property_id"] for c in checks])
